module verif

go 1.22.0

toolchain go1.23.5

require (
	github.com/anishathalye/porcupine v1.3.0
	github.com/ichiban/prolog v0.0.0
	golang.org/x/tools v0.29.0
)

replace github.com/ichiban/prolog => /repo
