module verif

go 1.21

require github.com/ichiban/prolog v0.0.0

replace github.com/ichiban/prolog => /repo
