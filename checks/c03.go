package checks

import (
	"time"

	"verif/h"
	"verif/ref"
)

// C03 — cut removes exactly the clause-level choice points; call/N etc. make it local.

// Every generator writes one character per clause tried, so the output trace shows exactly which
// alternatives were (re)entered: pruning errors that leave the answers intact still change it.
const c03Base = `
g(X) :- put_char(a), X = 1.
g(X) :- put_char(b), X = 2.
g(X) :- put_char(c), X = 3.
g0(X) :- put_char(p), X = 1.
g0(X) :- put_char(q), X = 2.
s(X) :- g(X), X > 1, !, put_char(s).
s(9) :- put_char(z).
d(X) :- put_char(d), X = 1.
atom(X, _) :- put_char(a), X = 1.
atom(X, _) :- put_char(b), X = 2.
atom(X, _) :- put_char(c), X = 3.
integer(X, Y, Z) :- g(X), Y = Z.
`

var c03Items = []string{
	"g(X)", "g(Y)", "!", "X > 1", "Y < 3", "put_char(k)", "fail",
	"s(Y)", "d(Y)",
	"call((g(Y), !))", "call((g(Y), !, put_char(m)))", "call(!)", "G = (g(Y), !), call(G)", "call(s, Y)",
	"\\+ (g(Y), !, Y > 5)", "\\+ (g(Y), Y > 2, !)", "once(g(Y))", "once((g(Y), Y > 1))",
	"once((g(Y), !))", "once(!)", "once((g(Y), !, put_char(m)))", "\\+ \\+ (g(Y), !)", "call(once, (g(Y), !))",
	"(g(Y) -> put_char(t) ; put_char(e))", "(g(Y), Y > 5 -> put_char(t) ; put_char(e))", "(g(Y), Y > 1 -> true)", "(fail -> true ; g(Y))",
	"findall(Y, (g(Y), !), L)", "findall(Y, (g(Y), Y > 1, !), L)", "bagof(Y, (g(Y), !), L)", "setof(Y, (g(Y), Y < 3), L)",
	"catch((g(Y), !), _, true)", "catch((g(Y), Y > 1, !, put_char(m)), _, true)",
	"call_nth((g(Y), !), 1)", "call_nth(g(Y), 2)", "call_nth((g(Y), !), N)", "call_nth(!, 1)",
	// user predicates that share their NAME with a deterministic built-in of another arity
	"atom(Y, k)", "integer(X, k, k)", "var(Y)", "Y = 2",
	// call/N whose closure is a control construct (or a partial application of one)
	"call(',', g(Y), !)", "call(','(g(Y)), !)", "call(',', !, g(Y))", "call(';', (g(Y), !), fail)", "call(','(true), (g(Y), !, put_char(m)))",
}

var c03Contexts = []string{
	"t(X, Y)",
	"g0(A), t(X, Y)",
	"t(X, Y), g0(A)",
	"g0(A), t(X, Y), g0(B)",
	"findall(X-Y, t(X, Y), R)",
	"u(X, Y)",
	"v(X, Y, A)",
	"call(t, X, Y)",
	"\\+ \\+ t(X, Y)",
	"(t(X, Y) -> put_char(y) ; put_char(n))",
	"once(t(X, Y))",
	"t(X, Y), !",
	"g0(A), t(X, Y), A > 1, !",
	"g0(A), call_nth(t(X, Y), 2)",
}

// depth sweep: a reduced set of skeletons is called underneath a non tail recursive stack of every
// depth 0..D, so that any stack-size dependent behaviour of the machine (growth, compaction)
// falls between the call and the cut for some depth.
var c03SweepItems = []string{"g(X)", "g(Y)", "!", "s(Y)", "X > 1", "call((g(Y), !))", "once(g(Y))", "once((g(Y), !))", "catch((g(Y), !), _, true)", "\\+ (g(Y), !, Y > 5)"}

func c03Sweep(w *h.W) {
	maxDepth := w.Pick(72, 140)
	n := len(c03SweepItems)
	extra := rdAll(`
rec(0).
rec(N) :- N > 0, M is N - 1, rec(M), true.
deepd(0, X, Y) :- td(3, X, Y).
deepd(N, X, Y) :- N > 0, M is N - 1, deepd(M, X, Y), put_char(r).
`)
	for l := 1; l <= 2; l++ {
		seqs(l, n, func(idx []int) bool {
			for pos := 0; pos <= l; pos++ { // where the deep deterministic goal rec(D) sits in the body
				for _, last := range []bool{false, true} {
					if !w.Mine() {
						continue
					}
					vars := map[string]*ref.Var{}
					var body []T
					for k, i := range idx {
						if k == pos {
							body = append(body, rdv("rec(D)", vars))
						}
						body = append(body, rdv(c03SweepItems[i], vars))
					}
					if pos == l {
						body = append(body, rdv("rec(D)", vars))
					}
					cls := append(append(rdAll(c03Base), rdAll(c03Wrap)...), extra...)
					cls = append(cls, rd("t(0, 0)"), rd("td(_, 7, 7) :- put_char(x)"), rule(rdv("td(D, X, Y)", vars), body...))
					if !last {
						cls = append(cls, rd("td(_, 8, 8) :- put_char(y)"))
					}
					pc := &h.ProgCase{Budget: 20000, Steps: []h.ProgStep{h.Consult(cls...)}}
					for d := 0; d <= maxDepth; d++ {
						// deep stack between the call and the cut ...
						pc.Steps = append(pc.Steps, h.Query(Cm(",", rd("g0(A)"), Cm("td", I(int64(d)), V("X"), V("Y"))), 40))
						// ... and underneath the call
						pc.Steps = append(pc.Steps, h.Query(Cm(",", rd("g0(A)"), Cm("deepd", I(int64(d)), V("X"), V("Y"))), 40))
					}
					runProgCase(w, "cut-depth", pc, l)
				}
			}
			return true
		})
	}
}

const c03Wrap = `
u(X, Y) :- g0(_), t(X, Y).
v(X, Y, A) :- g0(A), w(X, Y), put_char(v).
w(X, Y) :- u(X, Y), put_char(w).
w(0, 0) :- put_char(o).
deep(0, X, Y) :- t(X, Y).
deep(N, X, Y) :- N > 0, M is N - 1, deep(M, X, Y), put_char(r).
`

func c03Program(bodies [][]T, vars []map[string]*ref.Var, shape int) []T {
	cls := append(rdAll(c03Base), rdAll(c03Wrap)...)
	switch shape {
	case 0: // enumerated clause between two fixed ones
		cls = append(cls, rd("t(7, 7) :- put_char(x)"), rule(rdv("t(X, Y)", vars[0]), bodies[0]...), rd("t(8, 8) :- put_char(y)"))
	case 1: // two enumerated clauses
		cls = append(cls, rule(rdv("t(X, Y)", vars[0]), bodies[0]...), rule(rdv("t(X, Y)", vars[1]), bodies[1]...), rd("t(8, 8) :- put_char(y)"))
	case 3: // enumerated clause last
		cls = append(cls, rd("t(7, 7) :- put_char(x)"), rule(rdv("t(X, Y)", vars[0]), bodies[0]...))
	case 2: // one clause whose body is a top-level disjunction of the two bodies (shared variables)
		cls = append(cls, Cm(":-", rdv("t(X, Y)", vars[0]), Cm(";", conj(bodies[0]...), conj(bodies[1]...))), rd("t(8, 8) :- put_char(y)"))
	}
	return cls
}

// c03Extra: goals of the opaque wrappers that are themselves disjunctions with a cut in a disjunct (the cut is local to
// the wrapper and commits its disjunction), among them the Recovery of a catch/3 that has caught an error. They
// are combined with every item in bodies of length <= 2 only.
var c03Extra = []string{
	"catch(throw(e), _, (g(Y), ! ; put_char(n)))", "catch((g(Y), Y > 1, throw(e)), _, (g(Y), ! ; put_char(n)))", "catch(throw(e), _, (g(Y), Y > 1, !, put_char(m) ; put_char(n)))",
	"catch(throw(e), _, (put_char(n) ; g(Y), !))", "catch(throw(e), _, (g(Y), !))", "call((g(Y), ! ; put_char(n)))", "call((g(Y), Y > 1, ! ; put_char(n)))",
	"findall(Y, (g(Y), ! ; Y = 0), L)", "\\+ (g(Y), !, fail ; fail)", "once((g(Y), Y > 1, ! ; put_char(n)))", "catch((g(Y), ! ; put_char(n)), _, true)",
	"call_nth((g(Y), ! ; put_char(n)), N)", "G = (g(Y), ! ; put_char(n)), G", "catch(atom_length(_, _), _, (g(Y), ! ; put_char(n)))",
}

func c03Work(w *h.W) {
	c03Sweep(w)
	run := func(cls []T, size int) {
		pc := &h.ProgCase{Budget: 6000, Steps: []h.ProgStep{h.Consult(cls...)}}
		for _, c := range c03Contexts {
			pc.Steps = append(pc.Steps, h.Query(rd(c), 40))
		}
		runProgCase(w, "cut", pc, size)
	}
	for _, x := range c03Extra {
		for i := -1; i < len(c03Items); i++ {
			for _, first := range []bool{true, false} {
				if i < 0 && !first {
					continue
				}
				if !w.Mine() {
					continue
				}
				vars := map[string]*ref.Var{}
				body := []T{rdv(x, vars)}
				if i >= 0 && first {
					body = []T{rdv(x, vars), rdv(c03Items[i], vars)}
				} else if i >= 0 {
					body = []T{rdv(c03Items[i], vars), rdv(x, vars)}
				}
				run(c03Program([][]T{body}, []map[string]*ref.Var{vars}, 0), len(body))
				run(c03Program([][]T{body}, []map[string]*ref.Var{vars}, 3), len(body))
			}
		}
	}
	n := len(c03Items)
	// shape 0: all bodies up to the length bound that contain a cut or an opaque wrapper
	maxLen := w.Pick(3, 4)
	for l := 1; l <= maxLen; l++ {
		seqs(l, n, func(idx []int) bool {
			if !w.Mine() {
				return true
			}
			if w.Expired() {
				return false
			}
			vars := map[string]*ref.Var{}
			var body []T
			for _, i := range idx {
				body = append(body, rdv(c03Items[i], vars))
			}
			run(c03Program([][]T{body}, []map[string]*ref.Var{vars}, 0), l)
			if l < maxLen {
				run(c03Program([][]T{body}, []map[string]*ref.Var{vars}, 3), l)
			}
			return true
		})
	}
	// shapes 1, 2: two bodies of up to 2 items each
	maxLen2 := w.Pick(2, 2)
	var bodies [][]int
	for l := 1; l <= maxLen2; l++ {
		seqs(l, n, func(idx []int) bool { bodies = append(bodies, append([]int{}, idx...)); return true })
	}
	if !w.Thorough() {
		// quick: second body restricted to length 1
		var b1 [][]int
		for _, b := range bodies {
			if len(b) == 1 {
				b1 = append(b1, b)
			}
		}
		for _, a := range bodies {
			for _, b := range b1 {
				for shape := 1; shape <= 2; shape++ {
					if !w.Mine() {
						continue
					}
					if w.Expired() {
						return
					}
					c03Two(w, run, a, b, shape)
				}
			}
		}
		return
	}
	for _, a := range bodies {
		for _, b := range bodies {
			for shape := 1; shape <= 2; shape++ {
				if !w.Mine() {
					continue
				}
				if w.Expired() {
					return
				}
				c03Two(w, run, a, b, shape)
			}
		}
	}
}

func c03Two(w *h.W, run func([]T, int), a, b []int, shape int) {
	va, vb := map[string]*ref.Var{}, map[string]*ref.Var{}
	if shape == 2 {
		vb = va
	}
	var ba, bb []T
	for _, i := range a {
		ba = append(ba, rdv(c03Items[i], va))
	}
	for _, i := range b {
		bb = append(bb, rdv(c03Items[i], vb))
	}
	run(c03Program([][]T{ba, bb}, []map[string]*ref.Var{va, vb}, shape), len(a)+len(b))
}

func init() {
	h.Register(&h.Check{
		ID: "C03",
		Rule: "all control skeletons: predicate t/2 whose enumerated clause body is every sequence of <= L items over 46 item shapes (generators that trace entry/redo on the output, tests, '!', recursive/cutting sub-predicates, and the opaque wrappers call/1, call/2, \\+, once, ->, findall, bagof, setof, catch, call_nth containing cuts), placed between fixed clauses, as two enumerated clauses, and as a top-level disjunction; plus 14 wrapper goals that are disjunctions with a cut in a disjunct (among them the Recovery of a catch/3 that has caught an error), alone and before/after every item; each skeleton is run in 14 calling contexts (older choice points before/after, inside findall, as last call, three levels deep, under call/N, \\+, ->, once, call_nth, followed by a cut). Cuts occur only as direct conjuncts of a clause body or top-level disjunct, as the property states. Non-trivial = the reference yields an answer or error; distinct = program text.",
		Explanation: "state = one skeleton program loaded into a fresh real interpreter; transition = one context query run to exhaustion, comparing the answer sequence AND the character trace written by every generator clause with the reference machine (ISO cut barriers)",
		Assumptions: []string{"reference machine ref/solve implements ISO 7.8.4 cut semantics (self-checked against the ISO examples)", "placements of '!' inside nested ;/,/-> are excluded: this implementation makes them local by design and the property excludes them"},
		Work:        c03Work,
		Replay:      h.ProgReplay,
		QuickDeadline: 120 * time.Second, ThoroughDeadline: 20 * time.Minute,
	})
}
