package checks

import (
	"encoding/json"
	"fmt"
	"sort"
	"strings"
	"time"

	"verif/h"
	"verif/ref"
)

// C18 — the operator table evolves as op/3 defines; failed updates change nothing.
// Explicit-state BFS: state = reference operator table; transition = one op/3 call executed on the
// real interpreter (history replayed on a fresh instance).

type c18Case struct {
	History []string `json:"history"` // op/3 goals as text
}

// sweeps: an enumeration by current_op/3 (one of 4 instantiation patterns) that stays OPEN while every operator
// named o1/o2 it reaches is removed and while other current_op/3 calls (one of 4 kinds) run
const c18SweepPrefix = "sweep: "

var c18SweepOuter = []string{"current_op(P, T, N)", "current_op(P, xfx, N), T = xfx", "current_op(200, T, N), P = 200", "current_op(200, xfx, N), P = 200, T = xfx"}
var c18SweepInner = []string{"(\\+ current_op(_, _, N) -> true ; true)", "\\+ current_op(_, T, N), \\+ current_op(1, xfx, N)", "once(current_op(_, _, _))", "findall(x, current_op(_, _, _), _)"}

func c18Sweeps() []string {
	var out []string
	for i := range c18SweepOuter {
		for j := range c18SweepInner {
			out = append(out, fmt.Sprintf("%s%d %d", c18SweepPrefix, i, j))
		}
	}
	return out
}

// c18SweepApply removes from the model what the sweep removes and returns what it must enumerate.
func c18SweepApply(model ref.OpTable, g string) (outer, inner string, want []string) {
	var i, j int
	fmt.Sscanf(strings.TrimPrefix(g, c18SweepPrefix), "%d %d", &i, &j)
	for _, n := range []string{"o1", "o2"} {
		for cl, d := range model[n] {
			if (i == 1 || i == 3) && d.Spec != "xfx" {
				continue
			}
			if (i == 2 || i == 3) && d.Pri != 200 {
				continue
			}
			want = append(want, ref.CanonAnswer([]ref.Term{ref.C("t", ref.Int(int64(d.Pri)), ref.Atom(d.Spec), ref.Atom(n))}))
			delete(model[n], cl)
		}
		if len(model[n]) == 0 {
			delete(model, n)
		}
	}
	sort.Strings(want)
	return c18SweepOuter[i], c18SweepInner[j], want
}

func c18Alphabet(thorough bool) []string {
	pris := []string{"0", "200", "700", "1200", "1201"}
	specs := []string{"fx", "fy", "xfx", "xfy", "yfx", "xf", "yf", "foo"}
	names := []string{"o1", "-", "[o1, o2]", "[o2, o1]", "[o1, '[]']", "'|'", "','", "'\\x0\\'"} // the last one is the atom whose internal value is 0
	if thorough {
		pris = []string{"-1", "0", "1", "200", "700", "1000", "1001", "1200", "1201", "foo", "_"}
		specs = []string{"fx", "fy", "xfx", "xfy", "yfx", "xf", "yf", "foo", "1", "_"}
		names = []string{"'\\x0\\'", "[o1, '\\x0\\']", "o1", "o2", "-", "','", "'|'", "'[]'", "'{}'", "[o1, o2]", "[o2, o1]", "[o1, '[]']", "[o1|_]", "[o1, 7]", "[o2, _]", "7", "_", "[o2, -]", "[]"}
	}
	out := c18Sweeps()
	for _, n := range names {
		for _, s := range specs {
			for _, p := range pris {
				out = append(out, fmt.Sprintf("op(%s, %s, %s)", p, s, n))
			}
		}
	}
	return out
}

var c18Initial ref.OpTable

// the initial table is read once from a fresh implementation instance (it is the bootstrap's)
func c18InitialTable() ref.OpTable {
	if c18Initial != nil {
		return c18Initial.Clone()
	}
	im := h.NewImpl()
	_, ans := im.QueryTerms("current_op(P, T, N).", []string{"P", "T", "N"}, 1000)
	t := ref.OpTable{}
	for _, a := range ans {
		p, _ := a[0].(ref.Int)
		s, _ := a[1].(ref.Atom)
		n, _ := a[2].(ref.Atom)
		if t[string(n)] == nil {
			t[string(n)] = map[string]ref.OpDef{}
		}
		t[string(n)][ref.OpClass(string(s))] = ref.OpDef{Pri: int(p), Spec: string(s)}
	}
	c18Initial = t
	return t.Clone()
}

func c18Table(im *h.Impl) ([]string, string) {
	o, ans := im.QueryTerms("current_op(P, T, N).", []string{"P", "T", "N"}, 2000)
	if o.Status != "exhausted" {
		return nil, o.String()
	}
	var es []string
	for _, a := range ans {
		p, _ := a[0].(ref.Int)
		s, _ := a[1].(ref.Atom)
		n, _ := a[2].(ref.Atom)
		es = append(es, fmt.Sprintf("op(%d,%s,%s)", p, s, ref.QuoteAtomAlways(string(n))))
	}
	sort.Strings(es)
	return es, ""
}

// c18Run replays the history and checks the last transition completely (earlier ones were checked
// when they were the last). It returns the model key after the history.
func c18Run(c *c18Case, full bool) (exp, act, sig, key string, ok bool) {
	im := h.NewImpl()
	model := c18InitialTable()
	for i, g := range c.History {
		last := i == len(c.History)-1
		var res ref.OpResult
		if strings.HasPrefix(g, c18SweepPrefix) {
			outer, inner, want := c18SweepApply(model, g)
			o, ans := im.QueryTerms("findall(t(P, T, N), ("+outer+", ('=='(N, o1) ; '=='(N, o2)), op(0, T, N), "+inner+"), S).", []string{"S"}, 2)
			var got []string
			if len(ans) == 1 {
				es, _ := ref.ListSlice(ans[0][0])
				for _, e := range es {
					got = append(got, ref.CanonAnswer([]ref.Term{e}))
				}
			}
			sort.Strings(got)
			if o.Status != "exhausted" || len(ans) != 1 || strings.Join(got, " | ") != strings.Join(want, " | ") {
				return "every operator named o1/o2 reached exactly once: " + strings.Join(want, " | "), o.Status + " " + o.Err + " " + strings.Join(got, " | "), "current_op: an enumeration that is open while operators are removed skips or repeats entries", "", false
			}
			if !last {
				continue
			}
		} else {
			goal := rd(g).(*ref.Cmp)
			before := model.Clone()
			res = model.Apply(goal.Args[0], goal.Args[1], goal.Args[2])
			o := im.Query(g+".", nil, 2)
			succeeded := o.Status == "exhausted" && len(o.Answers) == 1
			errored := o.Status == "error" && strings.HasPrefix(o.Err, "error(")
			if !succeeded && !errored {
				return "op/3 succeeds or raises an ISO error", o.String(), "op: neither success nor error(…): " + o.Status, "", false
			}
			if res.Err && !res.EitherOK && succeeded {
				_ = before
				return "error (" + res.Why + "), table unchanged", "succeeded", "op: an invalid call succeeded: " + res.Why, "", false
			}
			if !res.Err && errored {
				return "success", o.String(), "op: a valid call raised an error", "", false
			}
			if !last {
				continue
			}
		}
		// (2) the table as enumerated by current_op/3
		got, bad := c18Table(im)
		if bad != "" {
			return "current_op/3 enumerates", bad, "current_op: enumeration failed", "", false
		}
		want := model.Entries()
		if strings.Join(got, " ") != strings.Join(want, " ") {
			kind := "table differs after a successful op/3"
			if res.Err {
				kind = "table changed by a failing op/3"
			}
			return diffEntries(want, got, true), diffEntries(want, got, false), "table: " + kind, "", false
		}
		// (2b) the same last call as a DIRECTIVE of a text that goes on with a clause using the operators: the rest of the
		// text is read under the table the directive left (the operands are numbers, so that the operator's name is the
		// first atom the reader looks up after the directive). A transition, not a state: done for every history.
		if !res.Err && !strings.HasPrefix(g, c18SweepPrefix) && !strings.Contains(strings.Join(c.History, " "), c18SweepPrefix) {
			for _, n := range []string{"o1", "o2"} {
				defs := model[n]
				_, pre := defs["prefix"]
				_, isInf := defs["infix"]
				_, post := defs["postfix"]
				q := "'" + n + "'"
				for _, pb := range []struct {
					text, want string
					parses     bool
				}{{n + " 1", q + "(1)", pre}, {"1 " + n + " 2", q + "(1,2)", isInf}, {"1 " + n, q + "(1)", post}} {
					im2 := h.NewImpl()
					for _, g0 := range c.History[:len(c.History)-1] {
						im2.Query(g0+".", nil, 2)
					}
					err := im2.P.Exec(":- " + g + ".\nrd_probe((" + pb.text + ")).\n")
					if (err == nil) != pb.parses {
						return fmt.Sprintf("a text ':- %s. rd_probe((%s)).' loads: %v", g, pb.text, pb.parses), fmt.Sprint("Exec returned ", err), "reader: the rest of a text does not follow the table its directive left", "", false
					}
					if err == nil {
						_, ans := im2.QueryTerms("rd_probe(X).", []string{"X"}, 2)
						if len(ans) != 1 || ref.Canon(ans[0][0], ref.NewNamer()) != pb.want {
							got := "no answer"
							if len(ans) == 1 {
								got = ref.Canon(ans[0][0], ref.NewNamer())
							}
							return fmt.Sprintf("after ':- %s.' in the same text, %s reads as %s", g, pb.text, pb.want), got, "reader: the rest of a text does not follow the table its directive left", "", false
						}
					}
				}
			}
		}
		if !full {
			continue // this table state has been probed completely before
		}
		// all 8 instantiation patterns for probe names
		for _, n := range []string{"o1", "o2", "-", "|", "=", "mod"} {
			var ps, ss []string
			for _, d := range model[n] {
				ps = append(ps, fmt.Sprint(d.Pri))
			}
			ps = append(ps, "200", "700")
			ss = []string{"fx", "fy", "xfx", "xfy", "yfx", "xf", "yf"}
			qn := ref.QuoteAtomAlways(n)
			check := func(pat string, filter func(p int, s, name string) bool, vars []string) (string, string, bool) {
				o, ans := im.QueryTerms(pat+".", vars, 3000)
				if o.Status != "exhausted" {
					return "exhausted", o.String(), false
				}
				var g []string
				for _, a := range ans {
					g = append(g, ref.CanonAnswer(a))
				}
				sort.Strings(g)
				var wnt []string
				for name, m := range model {
					for _, d := range m {
						if filter(d.Pri, d.Spec, name) {
							var vs []ref.Term
							for _, v := range vars {
								switch v {
								case "P":
									vs = append(vs, ref.Int(d.Pri))
								case "T":
									vs = append(vs, ref.Atom(d.Spec))
								case "N":
									vs = append(vs, ref.Atom(name))
								}
							}
							wnt = append(wnt, ref.CanonAnswer(vs))
						}
					}
				}
				sort.Strings(wnt)
				if strings.Join(g, "|") != strings.Join(wnt, "|") {
					return pat + " => {" + strings.Join(wnt, " | ") + "}", "{" + strings.Join(g, " | ") + "}", false
				}
				return "", "", true
			}
			if e, a, okk := check("current_op(P, T, "+qn+")", func(p int, s, name string) bool { return name == n }, []string{"P", "T"}); !okk {
				return e, a, "current_op(-,-,+) differs from the table", "", false
			}
			for _, s := range ss {
				s := s
				if e, a, okk := check("current_op(P, "+s+", "+qn+")", func(p int, sp, name string) bool { return name == n && sp == s }, []string{"P"}); !okk {
					return e, a, "current_op(-,+,+) differs from the table", "", false
				}
				for _, p := range ps {
					p := p
					if e, a, okk := check("current_op("+p+", "+s+", "+qn+")", func(pp int, sp, name string) bool { return name == n && sp == s && fmt.Sprint(pp) == p }, nil); !okk {
						return e, a, "current_op(+,+,+) differs from the table", "", false
					}
				}
			}
			for _, p := range ps {
				p := p
				if e, a, okk := check("current_op("+p+", T, "+qn+")", func(pp int, sp, name string) bool { return name == n && fmt.Sprint(pp) == p }, []string{"T"}); !okk {
					return e, a, "current_op(+,-,+) differs from the table", "", false
				}
			}
		}
		for _, s := range []string{"xfx", "fy", "yf"} {
			s := s
			o, ans := im.QueryTerms("current_op(P, "+s+", N).", []string{"P", "N"}, 3000)
			cnt := 0
			for _, m := range model {
				for _, d := range m {
					if d.Spec == s {
						cnt++
					}
				}
			}
			if o.Status != "exhausted" || len(ans) != cnt {
				return fmt.Sprintf("current_op(P, %s, N) has %d answers", s, cnt), fmt.Sprintf("%s, %d answers", o.Status, len(ans)), "current_op(-,+,-) differs from the table", "", false
			}
			o, ans = im.QueryTerms("current_op(200, "+s+", N).", []string{"N"}, 3000)
			cnt = 0
			for _, m := range model {
				for _, d := range m {
					if d.Spec == s && d.Pri == 200 {
						cnt++
					}
				}
			}
			if o.Status != "exhausted" || len(ans) != cnt {
				return fmt.Sprintf("current_op(200, %s, N) has %d answers", s, cnt), fmt.Sprintf("%s, %d answers", o.Status, len(ans)), "current_op(+,+,-) differs from the table", "", false
			}
		}
		{
			o, ans := im.QueryTerms("current_op(700, T, N).", []string{"T", "N"}, 3000)
			cnt := 0
			for _, m := range model {
				for _, d := range m {
					if d.Pri == 700 {
						cnt++
					}
				}
			}
			if o.Status != "exhausted" || len(ans) != cnt {
				return fmt.Sprintf("current_op(700, T, N) has %d answers", cnt), fmt.Sprintf("%s, %d answers", o.Status, len(ans)), "current_op(+,-,-) differs from the table", "", false
			}
		}
		// (3) reader and writer use exactly that table
		for _, n := range []string{"o1", "o2"} {
			defs := model[n]
			probe := func(text string, wantParse bool, wantTerm string) (string, string, bool) {
				o, ans := im.QueryTerms("X = ("+text+").", []string{"X"}, 2)
				parsed := o.Status == "exhausted" && len(ans) == 1
				if parsed != wantParse {
					return fmt.Sprintf("'%s' parses: %v", text, wantParse), o.String(), false
				}
				if parsed && wantTerm != "" && ref.Canon(ans[0][0], ref.NewNamer()) != wantTerm {
					return text + " reads as " + wantTerm, ref.Canon(ans[0][0], ref.NewNamer()), false
				}
				return "", "", true
			}
			_, pre := defs["prefix"]
			inf, isInf := defs["infix"]
			_, post := defs["postfix"]
			q := "'" + n + "'"
			if e, a, okk := probe(n+" a", pre, q+"('a')"); !okk {
				return e, a, "reader: prefix use does not follow the table", "", false
			}
			if e, a, okk := probe("a "+n+" b", isInf, q+"('a','b')"); !okk {
				return e, a, "reader: infix use does not follow the table", "", false
			}
			if e, a, okk := probe("a "+n, post, q+"('a')"); !okk {
				return e, a, "reader: postfix use does not follow the table", "", false
			}
			if isInf && !pre && !post {
				want := ""
				parse := true
				switch inf.Spec {
				case "xfy":
					want = q + "('a'," + q + "('b','c'))"
				case "yfx":
					want = q + "(" + q + "('a','b'),'c')"
				case "xfx":
					parse = false
				}
				if e, a, okk := probe("a "+n+" b "+n+" c", parse, want); !okk {
					return e, a, "reader: associativity does not follow the specifier", "", false
				}
			}
			// writer
			before := im.Out.Len()
			im.Query("writeq("+n+"(a)), put_char('#'), writeq("+n+"(a, b)).", nil, 1)
			outp := im.Out.String()[before:]
			parts := strings.SplitN(outp, "#", 2)
			if len(parts) == 2 {
				unaryOp := !strings.Contains(parts[0], "(")
				binOp := !strings.Contains(parts[1], "(")
				if unaryOp != (pre || post) {
					return fmt.Sprintf("writeq(%s(a)) uses operator notation: %v", n, pre || post), parts[0], "writer: unary operator notation does not follow the table", "", false
				}
				if binOp != isInf {
					return fmt.Sprintf("writeq(%s(a,b)) uses operator notation: %v", n, isInf), parts[1], "writer: infix operator notation does not follow the table", "", false
				}
			}
		}
	}
	return "", "", "", model.Key(), true
}

func diffEntries(want, got []string, showWant bool) string {
	ws, gs := map[string]bool{}, map[string]bool{}
	for _, w := range want {
		ws[w] = true
	}
	for _, g := range got {
		gs[g] = true
	}
	var out []string
	if showWant {
		for _, w := range want {
			if !gs[w] {
				out = append(out, "missing "+w)
			}
		}
		return "table = model; " + strings.Join(out, ", ")
	}
	for _, g := range got {
		if !ws[g] {
			out = append(out, "extra "+g)
		}
	}
	for _, w := range want {
		if !gs[w] {
			out = append(out, "lacks "+w)
		}
	}
	return strings.Join(out, ", ")
}

func c18Work(w *h.W) {
	// quick: reduced alphabet to depth 2; thorough: reduced alphabet to depth 3, then full alphabet to depth 2
	c18BFS(w, nil, c18Alphabet(false), w.Pick(2, 3))
	if w.Thorough() {
		c18BFS(w, nil, c18Alphabet(true), 2)
	}
	// a second root: a table that already holds several user operators of several classes (so that removals
	// happen in the middle of the table, not only at its end)
	root := []string{"op(200, xfx, [o1, o2])", "op(700, fy, [o1, o2, o3])", "op(200, xfy, o3)"}
	c18BFS(w, root, c18Alphabet(false), w.Pick(1, 2))
}

func c18BFS(w *h.W, root []string, alpha []string, maxDepth int) {
	type node struct{ hist []string }
	var frontier []node
	for _, a := range alpha {
		if w.Mine() {
			frontier = append(frontier, node{append(append([]string{}, root...), a)})
		}
	}
	seen := map[string]bool{}
	probed := map[string]bool{}
	for depth := 1; depth <= maxDepth && len(frontier) > 0; depth++ {
		var next []node
		for _, nd := range frontier {
			if w.Expired() {
				return
			}
			c := &c18Case{History: nd.hist}
			// the table state this history leads to (model only) decides whether the probes are repeated
			mk := c18InitialTable()
			for _, g := range nd.hist {
				if strings.HasPrefix(g, c18SweepPrefix) {
					c18SweepApply(mk, g)
					continue
				}
				goal := rd(g).(*ref.Cmp)
				mk.Apply(goal.Args[0], goal.Args[1], goal.Args[2])
			}
			w.Guard(c)
			exp, act, sig, key, ok := c18Run(c, !probed[mk.Key()])
			w.Unguard()
			probed[mk.Key()] = true
			w.Eval(1)
			w.Transitions(1)
			w.Traces(1)
			if !ok {
				w.Outcome("differ")
				w.Violation(sig, c, exp, act, len(nd.hist))
				continue
			}
			w.Outcome(fmt.Sprintf("depth%d", depth))
			w.Sample(strings.Join(nd.hist, ", "))
			k := key + "@" + nd.hist[len(nd.hist)-1]
			if depth > 1 && seen[key] {
				continue // this table state was already expanded
			}
			_ = k
			if !seen[key] {
				seen[key] = true
				w.States(1)
				w.Nontrivial(key)
			}
			if depth < maxDepth {
				for _, a := range alpha {
					next = append(next, node{append(append([]string{}, nd.hist...), a)})
				}
			}
		}
		frontier = next
	}
}

func c18Replay(b []byte) (string, string, bool) {
	var c c18Case
	if err := json.Unmarshal(b, &c); err != nil {
		return "", err.Error(), false
	}
	exp, act, _, _, ok := c18Run(&c, true)
	return exp, act, ok
}

func init() {
	h.Register(&h.Check{
		ID:            "C18",
		Rule:          "explicit-state BFS over op/3 histories: alphabet = priorities {0,200,700,1200,1201} (thorough: {-1,0,1,200,700,1000,1001,1200,1201, a non-integer, unbound}) x specifiers {the seven, foo} (thorough: plus 1, unbound) x names {o1, -, [o1,o2], [o2,o1], [o1,'[]'], '|', ',', the one-character atom NUL (internal value 0)} (thorough: plus o2, '[]', '{}', partial list, list with a number / an unbound member, a number, unbound, [o2,-], []); states = distinct reference tables; every history up to depth D, expanding each table state once. After EVERY transition: success/error as ISO prescribes, the complete table through current_op/3, current_op/3 in all 8 instantiation patterns for 6 probe names x all specifiers and priorities, reader probes (prefix/infix/postfix use parses iff defined, with the structure and associativity the specifier implies) and writer probes (operator notation iff defined); and after every transition the same op/3 call as a directive of a text that goes on with a clause using o1/o2 in prefix, infix and postfix position: the rest of the text is read under the table the directive left. Distinct = table state.; the alphabet also holds 16 SWEEPS (an enumeration by current_op/3 in one of 4 instantiation patterns that stays open while every operator named o1/o2 it reaches is removed and other current_op/3 calls of 4 kinds run: every such operator is reached exactly once), and the search is repeated from a second root, a table that already holds user operators of three names and classes",
		Explanation:   "state = the reference operator table (ISO 8.14.3: one definition per name and class, 0 removes, no infix+postfix of one name, ',' '|' '[]' '{}' rules, a failing call changes nothing); transition = one op/3 call on the real interpreter (history replayed on a fresh instance); the initial table is read from a fresh instance",
		Assumptions:   []string{"which error a failing op/3 raises is not compared (C05 checks that it is an ISO error term), only that it fails and leaves the table unchanged", "priority 0 for a name whose conflicting class exists (ISO silent) may succeed or fail"},
		Work:          c18Work,
		Replay:        c18Replay,
		QuickDeadline: 170 * time.Second, ThoroughDeadline: 30 * time.Minute,
	})
}
