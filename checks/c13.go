package checks

import (
	"bytes"
	"context"
	"encoding/json"
	"errors"
	"fmt"
	"github.com/ichiban/prolog/engine"
	"io/fs"
	"os"
	"sort"
	"strings"
	"sync/atomic"
	"testing/fstest"
	"time"

	"github.com/ichiban/prolog"

	"verif/h"
)

// C13 — cancelling the context stops any execution promptly; the interpreter stays usable.
// Deterministic cancel seam: the io.Writer given as user_output calls the real cancel() of a real
// context when the k-th byte arrives; every generated loop writes a byte before each of its goals,
// so k enumerates every phase of every iteration. Silent loops are cancelled from a timer instead.

const c13Program = `
rec :- put_char(a), rec.
ping :- put_char(a), pong.
pong :- put_char(b), ping.
:- dynamic(c/1).
c(0).
step :- retract(c(N)), put_char(a), M is N + 1, assertz(c(M)), put_char(b), step.
silent :- silent.
deep(N) :- put_char(a), M is N + 1, deep(M), put_char(z).
`

type c13Loop struct {
	Name, Goal string
	Silent     bool
}

var c13Loops = []c13Loop{
	{"repeat-fail", "(repeat, put_char(a), fail)", false},
	{"repeat-builtin-fail", "(repeat, put_char(a), 1 = 2)", false},
	{"direct-recursion", "rec", false},
	{"mutual-recursion", "ping", false},
	{"non-tail-recursion", "deep(0)", false},
	{"between", "(between(1, 9223372036854775807, _), put_char(a), fail)", false},
	{"length", "(length(_, _), put_char(a), fail)", false},
	{"retract-assertz", "step", false},
	{"silent-repeat-builtin", "(repeat, 1 = 2)", true},
	{"silent-repeat-fail", "(repeat, fail)", true},
	{"silent-recursion", "silent", true},
	{"silent-between", "(between(1, 9223372036854775807, X), X < 0)", true},
	{"silent-findall-repeat", "findall(X, (repeat, atom(1)), _)", true},
}

var c13Wrappers = []string{
	"%s", "findall(_, %s, _)", "bagof(x, %s, _)", "\\+ %s", "catch(%s, _, true)", "catch(%s, _, %s)", "call(%s)", "once(%s)",
	"(%s ; true)", "(%s -> true ; true)", "\\+ \\+ %s", "setof(x, %s, _)",
}

var c13Positions = []string{"query", "second-answer", "directive", "initialization", "term-expansion", "consult-fs", "ensure-loaded-directive"}

type c13Case struct {
	Loop     int    `json:"loop"`
	Wrap     []int  `json:"wrap"`
	Position string `json:"position"`
	K        int    `json:"k"` // cancel when the k-th byte is written (0 = before the call); -1 = timer
	Goal     string `json:"goal"`
}

type cancelWriter struct {
	n, k      int
	cancel    context.CancelFunc
	cancelled bool
	after     int
	buf       bytes.Buffer
}

func (w *cancelWriter) Write(p []byte) (int, error) {
	for range p {
		w.n++
		if w.cancelled {
			w.after++
		}
		if w.k > 0 && w.n == w.k && !w.cancelled {
			w.cancel()
			w.cancelled = true
		}
	}
	w.buf.Write(p)
	return len(p), nil
}

func c13Goal(c *c13Case) string {
	g := c13Loops[c.Loop].Goal
	for _, wi := range c.Wrap {
		g = strings.ReplaceAll(c13Wrappers[wi], "%s", g)
	}
	return g
}

const c13AfterBound = 64

var c13FollowUps = []string{"fail.", "X = 1.", "findall(Y, member(Y, [a, b]), L).", "c(N), integer(N).", "put_char(z), X = done.", "catch(rec0, error(E, _), true).", "atom_length(abc, L), \\+ fail.", "(X = a ; X = b)."}

var c13Fresh map[string]string

func c13Run(c *c13Case) (exp, act string, ok bool) {
	if c13Fresh == nil {
		fresh := prolog.New(strings.NewReader(""), &bytes.Buffer{})
		if e := fresh.Exec(c13Program); e != nil {
			return "program loads", e.Error(), false
		}
		c13Fresh = map[string]string{}
		for _, q := range c13FollowUps {
			c13Fresh[q] = c13Answers(fresh, q)
		}
	}
	c.Goal = c13Goal(c)
	ctx, cancel := context.WithCancel(context.Background())
	defer cancel()
	cw := &cancelWriter{k: c.K, cancel: cancel}
	p := prolog.New(strings.NewReader(""), cw)
	if err := p.Exec(c13Program); err != nil {
		return "program loads", err.Error(), false
	}
	p.FS = fstest.MapFS{"lib.pl": &fstest.MapFile{Data: []byte("from_lib(1).\n:- (loop_enabled -> " + c.Goal + " ; true).\n")}}
	var _ fs.FS = p.FS
	if c.K == 0 {
		cancel()
		cw.cancelled = true
	}
	if c.K < 0 {
		// a loop that writes nothing: cancel from a timer (the instant is not controlled; the
		// property must hold for any instant)
		go func() {
			time.Sleep(time.Duration(5+3*(-c.K)) * time.Millisecond)
			cancel()
		}()
	}
	exp = "the call returns context.Canceled; at most 64 bytes written after cancel(); follow-up queries answer as on a fresh interpreter"
	var err error
	switch c.Position {
	case "query":
		sols, qerr := p.QueryContext(ctx, c.Goal+".")
		if qerr != nil {
			return exp, "QueryContext failed: " + qerr.Error(), false
		}
		if sols.Next() {
			sols.Close()
			return exp, "Next returned true for a loop that has no answer", false
		}
		err = sols.Err()
		sols.Close()
	case "second-answer":
		sols, qerr := p.QueryContext(ctx, "(X = first ; "+c.Goal+").")
		if qerr != nil {
			return exp, "QueryContext failed: " + qerr.Error(), false
		}
		if c.K != 0 {
			if !sols.Next() {
				return exp, fmt.Sprintf("the first answer was not delivered: %v", sols.Err()), false
			}
		}
		if c.K == 0 {
			sols.Next()
		} else if sols.Next() {
			sols.Close()
			return exp, "Next returned true for a loop that has no answer", false
		}
		err = sols.Err()
		sols.Close()
	case "directive":
		err = p.ExecContext(ctx, ":- "+c.Goal+".\n")
	case "initialization":
		err = p.ExecContext(ctx, "loaded_before(1).\n:- initialization("+c.Goal+").\n")
	case "term-expansion":
		if e := p.Exec("term_expansion(trigger_expansion, expanded) :- " + c.Goal + ".\n"); e != nil {
			return exp, "term_expansion could not be loaded: " + e.Error(), false
		}
		err = p.ExecContext(ctx, "some_fact(1).\ntrigger_expansion.\n")
	case "ensure-loaded-directive":
		if e := p.Exec(":- dynamic(loop_enabled/0).\nloop_enabled.\n"); e != nil {
			return exp, e.Error(), false
		}
		err = p.ExecContext(ctx, ":- ensure_loaded(lib).\n")
	case "consult-fs":
		if e := p.Exec(":- dynamic(loop_enabled/0).\nloop_enabled.\n"); e != nil {
			return exp, e.Error(), false
		}
		err = p.ExecContext(ctx, ":- consult(lib).\n")
	}
	switch {
	case err == nil:
		return exp, "the call returned without an error", false
	case !errors.Is(err, context.Canceled):
		return exp, "the call returned " + err.Error() + " instead of the context's error", false
	}
	if cw.after > c13AfterBound {
		return exp, fmt.Sprintf("%d bytes were written after cancel() returned", cw.after), false
	}
	// the interpreter is still usable: the follow-up queries come IMMEDIATELY after the cancelled call (what
	// a fresh interpreter answers was recorded beforehand, so that nothing else runs in between)
	for _, q := range c13FollowUps {
		got, want := c13Answers(p, q), c13Fresh[q]
		if got != want {
			return exp + "; " + q + " answers " + want, "after the cancellation " + q + " answers " + got, false
		}
	}
	if c.Position == "consult-fs" || c.Position == "ensure-loaded-directive" {
		// the file whose load was cancelled can be loaded afterwards
		if e := p.Exec(":- retract(loop_enabled).\n:- ensure_loaded(lib).\n"); e != nil {
			return exp + "; the file can be consulted again", "consulting the file again after the cancelled load failed: " + e.Error(), false
		}
		if got := c13Answers(p, "from_lib(X)."); !strings.Contains(got, "X:1") {
			return exp + "; after consulting the file again from_lib(X) answers X = 1", "from_lib(X) answers " + got, false
		}
	}
	return exp, "as expected", true
}

// ---- cancellation BETWEEN two answers: no call is pending, the search is parked at the hand-over --------

type c13BetweenCase struct {
	Between  bool   `json:"between_answers"`
	Query    string `json:"query"`
	After    int    `json:"after_answers"`
	Deadline bool   `json:"deadline"`
}

var c13Generators = []string{
	"(X = 1 ; X = 2 ; X = 3).", "member(X, [1, 2, 3, 4]).", "between(1, 9223372036854775807, X).", "repeat, X = 1.", "length(X, _).", "c(X).",
	"catch(member(X, [1, 2, 3]), _, true).", "findall(Y, member(Y, [1, 2]), L), member(X, L).", "\\+ fail, member(X, [1, 2, 3]).", "nat(X).",
}

func c13BetweenRun(c *c13BetweenCase) (exp, act string, ok bool) {
	p := prolog.New(strings.NewReader(""), &bytes.Buffer{})
	if err := p.Exec(c13Program + "\nnat(0).\nnat(N) :- nat(M), N is M + 1.\n"); err != nil {
		return "program loads", err.Error(), false
	}
	var ctx context.Context
	var cancel context.CancelFunc
	if c.Deadline {
		ctx, cancel = context.WithTimeout(context.Background(), 30*time.Millisecond)
	} else {
		ctx, cancel = context.WithCancel(context.Background())
	}
	defer cancel()
	sols, err := p.QueryContext(ctx, c.Query)
	if err != nil {
		return "QueryContext succeeds", err.Error(), false
	}
	defer sols.Close()
	for i := 0; i < c.After; i++ {
		if !sols.Next() {
			if sols.Err() == nil {
				return "", "the generator has fewer answers", true
			}
			return fmt.Sprintf("answer %d is delivered", i+1), fmt.Sprintf("Next returned false, Err() = %v", sols.Err()), false
		}
	}
	wantErr := context.Canceled
	if c.Deadline {
		<-ctx.Done() // the deadline passes while the caller holds the answer
		wantErr = context.DeadlineExceeded
	} else {
		cancel()
	}
	exp = fmt.Sprintf("after the context is done, the next Next() returns false and Err() is %v (a cut-off enumeration is not the end of the solutions)", wantErr)
	if sols.Next() {
		return exp, "Next() returned true", false
	}
	if e := sols.Err(); !errors.Is(e, wantErr) {
		return exp, fmt.Sprintf("Next() = false, Err() = %v", e), false
	}
	for _, q := range c13FollowUps[:3] {
		if got, want := c13Answers(p, q), c13Fresh[q]; c13Fresh != nil && got != want {
			return exp + "; " + q + " answers " + want, "afterwards " + q + " answers " + got, false
		}
	}
	return exp, "as expected", true
}

// ---- cancellation at the k-th POLL: a deterministic seam for goals that write nothing ----------------------
// The context handed to QueryContext counts how often the engine looks at it (Done/Err) and cancels its parent at the
// k-th look: every instant at which a cancellation can take effect is enumerated, for goals that deliver answers.
// Oracle: the answers delivered are a prefix of the answers of the uncancelled run, each exactly equal to it (a
// cut-off sort, grouping or collection must never be handed out), and fewer answers come with the context's error.

type c13PollCtx struct {
	context.Context
	cancel func()
	n, k   int
}

func (p *c13PollCtx) look() {
	p.n++
	if p.n == p.k {
		p.cancel()
	}
}
func (p *c13PollCtx) Done() <-chan struct{} { p.look(); return p.Context.Done() }
func (p *c13PollCtx) Err() error            { p.look(); return p.Context.Err() }

type c13PollCase struct {
	Poll  bool   `json:"poll_instant"`
	Query string `json:"query"`
	K     int    `json:"k"`
}

var c13PollGoals = []string{
	"setof(X, Y^(between(1, 3000, Y), X is (Y * 7919) mod 3001), L).", // a permutation: the sort has real work to do
	"setof(X, Y^(between(1, 3000, Y), X is 3001 - Y), L).",
	"bagof(X-Y, (member(Y, [c, a, b, a]), between(1, 400, I), X is 401 - I), L).",
	"findall(X, (between(1, 3000, Y), X is (Y * 7919) mod 3001), L0), sort(L0, L).",
	"findall(K-V, (between(1, 2500, V), K is (V * 31) mod 97), L0), keysort(L0, L).",
	"findall(X, between(1, 2000, X), L), length(L, N).",
	"setof(K-Vs, setof(V, I^(between(1, 600, I), V is (I * 31) mod 7, K is (I * 17) mod 5), Vs), L).",
	"member(X, [1, 2, 3]), findall(Y, between(1, 300, Y), L).",
	"length(L, 1500), findall(E, member(E, L), L2), length(L2, N).",
	"catch(findall(X, between(1, 1000, X), L), _, true).",
	"\\+ \\+ findall(X, between(1, 1000, X), _), X = done.",
}

func c13PollRun(c *c13PollCase, baseline *[]string, polls *int) (exp, act string, ok bool) {
	run := func(k int) (answers []string, err error, n int) {
		p := prolog.New(strings.NewReader(""), &bytes.Buffer{})
		parent, cancel := context.WithCancel(context.Background())
		defer cancel()
		ctx := &c13PollCtx{Context: parent, cancel: cancel, k: k}
		sols, qerr := p.QueryContext(ctx, c.Query)
		if qerr != nil {
			return nil, qerr, 0
		}
		for sols.Next() && len(answers) < 10 {
			m := map[string]prolog.TermString{}
			if e := sols.Scan(m); e != nil {
				answers = append(answers, "scan error: "+e.Error())
				continue
			}
			answers = append(answers, varNumRe2.ReplaceAllString(fmt.Sprint(m), "_"))
		}
		err = sols.Err()
		sols.Close()
		return answers, err, ctx.n
	}
	if *baseline == nil {
		b, err, n := run(0)
		if err != nil {
			return "the uncancelled run succeeds", err.Error(), false
		}
		*baseline, *polls = b, n
	}
	if c.K == 0 {
		return "", "baseline", true
	}
	got, err, _ := run(c.K)
	exp = fmt.Sprintf("a prefix of the %d answers of the uncancelled run, each exactly as there; the context's error if fewer", len(*baseline))
	for i, a := range got {
		if i >= len(*baseline) || a != (*baseline)[i] {
			d := a
			if len(d) > 300 {
				d = d[:300] + "…"
			}
			return exp, fmt.Sprintf("answer %d differs from the uncancelled run's: %s", i+1, d), false
		}
	}
	if len(got) < len(*baseline) && !errors.Is(err, context.Canceled) {
		return exp, fmt.Sprintf("%d answers and Err() = %v", len(got), err), false
	}
	if len(got) == len(*baseline) && err != nil && !errors.Is(err, context.Canceled) {
		return exp, fmt.Sprintf("all answers, then Err() = %v", err), false
	}
	return exp, "as expected", true
}

func c13PollWork(w *h.W) {
	for _, q := range c13PollGoals {
		// every worker runs the uncancelled baseline of every goal itself (one run) and takes its share of the instants
		var baseline []string
		polls := 0
		if _, act, ok := c13PollRun(&c13PollCase{Poll: true, Query: q}, &baseline, &polls); !ok {
			w.Violation("cancel at the k-th poll: the uncancelled run fails", &c13PollCase{Poll: true, Query: q}, "succeeds", act, 1)
			continue
		}
		// every instant up to 300, then a geometric-arithmetic mix up to the last poll of the run (quick: ~600 instants per goal)
		var ks []int
		step := 1
		for k := 1; k <= polls+2; k += step {
			ks = append(ks, k)
			if k > w.Pick(150, 300) {
				step = 1 + polls/w.Pick(150, 3000)
			}
			if k+step > polls-w.Pick(250, 400) {
				step = 1 // the collecting, sorting and grouping steps come last: every instant of the last 400 polls
			}
		}
		// the last instants first (should the deadline pass, the early ones are the ones given up)
		sort.Slice(ks, func(i, j int) bool {
			ti, tj := ks[i] > polls-w.Pick(250, 400), ks[j] > polls-w.Pick(250, 400)
			if ti != tj {
				return ti
			}
			return ks[i] < ks[j]
		})
		for _, k := range ks {
			if !w.Mine() {
				continue
			}
			if w.Expired() {
				return
			}
			c := &c13PollCase{Poll: true, Query: q, K: k}
			w.GuardFor(c, 2*time.Minute)
			exp, act, ok := c13PollRun(c, &baseline, &polls)
			w.Unguard()
			w.Eval(1)
			w.States(1)
			w.Transitions(1)
			w.Traces(1)
			w.Nontrivial(fmt.Sprint("poll:", q, k))
			w.Outcome("poll-instant")
			if !ok {
				what := digitsRe.ReplaceAllString(act, "N")
				if len(what) > 50 {
					what = what[:50]
				}
				w.Violation("cancel at the k-th poll: "+what, c, exp, act, k)
			}
		}
		if w.Shard == 0 {
			w.Extra("polls_of_"+strings.SplitN(q, "(", 2)[0], int64(polls))
		}
	}
}

// ---- long single steps: work that happens inside ONE built-in call (no goal is executed meanwhile) --------

type c13StepCase struct {
	Step  bool   `json:"long_step"`
	Query string `json:"query"`
	After int    `json:"cancel_after_ms"`
}

var c13LongSteps = []string{
	"bagof(X, (between(1, 60000, Y), X = Y), L).", "setof(X-Y, (between(1, 60000, Y), X = Y), L).", "bagof(X, Y^(between(1, 300000, Y), X = Y), L).",
	"findall(X, between(1, 300000, X), L), sort(L, S), length(S, N).", "length(L, 600000), findall(E, member(E, L), L2).",
	"findall(X-Y, (between(1, 3000, X), between(1, 100, Y)), L), keysort(L, S).", "numlist_like(1, 300000, L), atom_codes_like(L).",
	// steps that no poll interrupts (one unification, one copy, one sort of a long list): seconds, far below the bound,
	// but long enough for a cancellation to land inside them
	"length(L, 250000), length(M, 250000), L = M.", "length(L, 250000), copy_term(L, M).", "length(L, 250000), term_variables(L, Vs).", "length(L, 250000), length(M, 250000), L == M.",
	"length(L, 100000), acyclic_term(L).",
	// a term that shares its subterms 25 levels deep (2^25 leaves as a tree, 25 cells as a graph) given to a control
	// construct: thorough tier only, an open known finding (call/N expands the graph as a tree, in one step)
	"dbl(25, X), \\+ X = b.",
	// an error that unwinds past hundreds of thousands of catch/3 goals that have exited
	"catch((many_catches(600000), throw(x)), _, true).",
}

const c13StepBound = 20 * time.Second // a step bound turned into a generous wall-clock bound (scheduling noise is milliseconds)

func c13StepRun(c *c13StepCase) (exp, act string, ok bool) {
	p := prolog.New(strings.NewReader(""), &bytes.Buffer{})
	if err := p.Exec("numlist_like(L, H, []) :- L > H, !.\nnumlist_like(L, H, [L|T]) :- L1 is L + 1, numlist_like(L1, H, T).\natom_codes_like(L) :- length(L, N), N > 0.\ndbl(0, a) :- !.\ndbl(N, f(T, T)) :- N1 is N - 1, dbl(N1, T).\nmany_catches(0) :- !.\nmany_catches(N) :- catch(true, _, true), N1 is N - 1, many_catches(N1).\n"); err != nil {
		return "program loads", err.Error(), false
	}
	// c13_mark/0 follows the long step in the query: it tells when the execution went on after the step. When the
	// cancelled call returns, the execution has stopped: a mark set after that is a goal running behind the caller's back.
	var markedAt atomic.Int64
	p.Register0(engine.NewAtom("c13_mark"), func(_ *engine.VM, k engine.Cont, env *engine.Env) *engine.Promise {
		markedAt.Store(time.Now().UnixNano())
		return k(env)
	})
	ctx, cancel := context.WithCancel(context.Background())
	defer cancel()
	var cancelledAt time.Time
	done := make(chan struct{})
	go func() {
		select {
		case <-time.After(time.Duration(c.After) * time.Millisecond):
			cancelledAt = time.Now()
			cancel()
		case <-done:
		}
	}()
	sols, err := p.QueryContext(ctx, strings.TrimSuffix(c.Query, ".")+", c13_mark.")
	if err != nil {
		close(done)
		return "QueryContext succeeds", err.Error(), false
	}
	got := sols.Next()
	returned := time.Now()
	close(done)
	qerr := sols.Err()
	sols.Close() // waits for the search to end
	time.Sleep(50 * time.Millisecond)
	if m := markedAt.Load(); m != 0 && m > returned.UnixNano() && !got {
		return "the execution has stopped when the cancelled call returns", fmt.Sprintf("the goal after the long step ran %v after Next had returned (Err = %v)", time.Duration(m-returned.UnixNano()).Round(time.Millisecond), qerr), false
	}
	exp = fmt.Sprintf("the call returns within %v of cancel() (with the context's error, or with its answer if it was quicker than the cancellation)", c13StepBound)
	if got && qerr == nil {
		return exp, "answered before the cancellation took effect", true
	}
	if cancelledAt.IsZero() {
		return exp, fmt.Sprintf("returned before cancel(): Next = %v, Err = %v", got, qerr), qerr == nil || true
	}
	if d := returned.Sub(cancelledAt); d > c13StepBound {
		return exp, fmt.Sprintf("returned %v after cancel() (Err = %v)", d.Round(time.Second), qerr), false
	}
	if qerr != nil && !errors.Is(qerr, context.Canceled) {
		return exp, "returned " + qerr.Error(), false
	}
	return exp, "as expected", true
}

func c13StepWork(w *h.W) {
	for _, q := range c13LongSteps {
		instants := []int{20, 200, 1000}
		if strings.HasPrefix(q, "dbl(") {
			if !w.Thorough() {
				continue
			}
			instants = []int{1000}
		}
		if strings.Contains(q, "many_catches") {
			if !w.Thorough() {
				continue // building 600000 exited catch/3 goals takes ~10 s: thorough tier only
			}
			instants = []int{11000, 14000, 20000} // after the loop, while the error unwinds (one step)
		}
		for _, after := range instants {
			if !w.Mine() {
				continue
			}
			c := &c13StepCase{Step: true, Query: q, After: after}
			w.GuardFor(c, 5*time.Minute)
			exp, act, ok := c13StepRun(c)
			w.Unguard()
			w.Eval(1)
			w.States(1)
			w.Transitions(1)
			w.Traces(1)
			w.Nontrivial(fmt.Sprint("step:", q, after))
			w.Outcome("long-step:" + strings.SplitN(act, " ", 2)[0])
			if !ok {
				w.Violation("cancel inside one long built-in step: "+strings.SplitN(q, "(", 2)[0]+": does not return within the bound", c, exp, act, after)
			}
		}
	}
}

func c13BetweenWork(w *h.W) {
	for _, q := range c13Generators {
		for after := 0; after <= 3; after++ {
			for _, dl := range []bool{false, true} {
				if !w.Mine() {
					continue
				}
				c := &c13BetweenCase{Between: true, Query: q, After: after, Deadline: dl}
				w.GuardFor(c, 25*time.Second)
				exp, act, ok := c13BetweenRun(c)
				w.Unguard()
				w.Eval(1)
				w.States(1)
				w.Transitions(after + 1)
				w.Traces(1)
				w.Nontrivial(fmt.Sprint("between:", q, after, dl))
				w.Outcome("between-answers")
				if !ok {
					what := digitsRe.ReplaceAllString(act, "N")
					if len(what) > 60 {
						what = what[:60]
					}
					w.Violation("cancel between answers: "+what, c, exp, act, after)
				}
			}
		}
	}
}

func c13Answers(p *prolog.Interpreter, q string) string {
	ctx, cancel := context.WithTimeout(context.Background(), 5*time.Second)
	defer cancel()
	sols, err := p.QueryContext(ctx, q)
	if err != nil {
		return "query error: " + err.Error()
	}
	var out []string
	for sols.Next() && len(out) < 5 {
		m := map[string]prolog.TermString{}
		if err := sols.Scan(m); err != nil {
			out = append(out, "scan error")
			continue
		}
		delete(m, "N")
		out = append(out, varNumRe2.ReplaceAllString(fmt.Sprint(m), "_"))
	}
	if err := sols.Err(); err != nil {
		out = append(out, "error: "+varNumRe2.ReplaceAllString(err.Error(), "_"))
	}
	sols.Close()
	return strings.Join(out, " | ")
}

var varNumRe2 = digitsAfterUnderscore()

func c13Work(w *h.W) {
	t0 := time.Now()
	c13BetweenWork(w)
	w.Extra("ms_between", time.Since(t0).Milliseconds())
	t0 = time.Now()
	c13PollWork(w)
	w.Extra("ms_poll", time.Since(t0).Milliseconds())
	t0 = time.Now()
	c13StepWork(w)
	w.Extra("ms_step", time.Since(t0).Milliseconds())
	t0 = time.Now()
	defer func() { w.Extra("ms_main", time.Since(t0).Milliseconds()) }()
	maxK := w.Pick(12, 60)
	var wraps [][]int
	for i := range c13Wrappers {
		wraps = append(wraps, []int{i})
	}
	if w.Thorough() {
		for i := range c13Wrappers {
			for j := 1; j < len(c13Wrappers); j++ {
				wraps = append(wraps, []int{i, j})
			}
		}
	} else {
		// quick: a fixed set of nested wrappers
		wraps = append(wraps, []int{1, 3}, []int{3, 1}, []int{4, 1}, []int{1, 4}, []int{5, 1}, []int{2, 7}, []int{7, 3}, []int{11, 4})
	}
	// classes (position, outermost wrapper) on which an earlier incarnation of this worker already
	// hung: the remaining instants of such a class are skipped (reported as not exhaustive)
	hung := map[string]int{}
	for _, hcase := range w.PriorHangs {
		var hc c13Case
		if json.Unmarshal(hcase, &hc) == nil {
			hung[hc.Position]++
		}
	}
	for li, lp := range c13Loops {
		for _, wr := range wraps {
			for _, pos := range c13Positions {
				ks := []int{}
				if lp.Silent {
					ks = []int{0, -1, -2}
					if w.Thorough() {
						ks = append(ks, -4, -8)
					}
				} else {
					for k := 0; k <= maxK; k++ {
						ks = append(ks, k)
					}
					// deep into the run: thousands of iterations, so that whatever grows with the run
					// (the machine's stacks, the trail, the database) is large at the instant of cancellation
					if len(wr) == 1 || w.Thorough() {
						ks = append(ks, 300, 3000, 12000)
						if w.Thorough() {
							ks = append(ks, 1000, 5000, 40000)
						}
					}
				}
				for _, k := range ks {
					if !w.Mine() {
						continue
					}
					if w.Expired() {
						return
					}
					if hung[pos] >= 2 {
						w.Capped()
						w.Extra("skipped_after_hangs_at_"+pos, 1)
						continue
					}
					c := &c13Case{Loop: li, Wrap: wr, Position: pos, K: k}
					w.GuardFor(c, 25*time.Second)
					exp, act, ok := c13Run(c)
					w.Unguard()
					w.Eval(1)
					w.States(1)
					w.Transitions(1)
					w.Traces(1)
					w.Nontrivial(fmt.Sprint(c.Goal, pos, k))
					kc := "k>0"
					if k == 0 {
						kc = "k=0"
					} else if k < 0 {
						kc = "timer"
					}
					w.Outcome(pos + ":" + kc)
					w.Sample(fmt.Sprintf("%s at %s, cancel at byte %d", c.Goal, pos, k))
					if !ok {
						what := act
						if i := strings.Index(what, " bytes were written"); i >= 0 {
							what = "bytes were written after cancel()"
						}
						what = digitsRe.ReplaceAllString(what, "N")
						if len(what) > 70 {
							what = what[:70]
						}
						w.Violation("cancel: "+pos+": "+what, c, exp, act, len(c.Goal)+k)
					}
				}
			}
		}
	}
}

func c13Replay(b []byte) (string, string, bool) {
	var bc c13BetweenCase
	if json.Unmarshal(b, &bc) == nil && bc.Between {
		return c13BetweenRun(&bc)
	}
	var pc c13PollCase
	if json.Unmarshal(b, &pc) == nil && pc.Poll {
		var baseline []string
		polls := 0
		e, a, ok := c13PollRun(&pc, &baseline, &polls)
		if os.Getenv("C13_DEBUG") != "" {
			fmt.Fprintf(os.Stderr, "debug: polls of the uncancelled run = %d, baseline answers = %d\n", polls, len(baseline))
		}
		return e, a, ok
	}
	var sc c13StepCase
	if json.Unmarshal(b, &sc) == nil && sc.Step {
		return c13StepRun(&sc)
	}
	var c c13Case
	if err := json.Unmarshal(b, &c); err != nil {
		return "", err.Error(), false
	}
	return c13Run(&c)
}

func init() {
	h.Register(&h.Check{
		ID:            "C13",
		Rule:          "all (loop, wrapper, position, cancellation instant) combinations: 13 loops (repeat-driven with a Prolog and with a Go built-in failing, direct / mutual / non-tail recursion, between/3, length/2, retract/assertz ping-pong, and 5 loops that write nothing) x wrappers {none, findall, bagof, setof, \\+, \\+\\+, catch with true / with the loop again as recovery, call, once, ;, ->} nested to depth 1 (quick: plus 7 depth-2 nestings; thorough: all depth-2 nestings) x positions {query, second answer of a query, directive of an Exec text, initialization/1 goal, body of a user term_expansion/2 during Exec, file consulted through Interpreter.FS by consult/1 and by an ensure_loaded/1 directive - after which the same file must be loadable} x cancellation instant k = 0 (already cancelled) .. K where the real cancel() is called by the output writer when the k-th byte arrives (every loop writes a byte before each goal, so k enumerates every phase of every iteration) plus the deep instants k = 300, 3000, 12000 (thorough: 1000, 5000, 40000 too) at which the machine's stacks hold thousands of entries; silent loops are cancelled from a timer at several delays; cancellation BETWEEN two answers: 10 generators x after 0..3 delivered answers x {cancel, deadline}: the next Next returns false and Err is the context's error; cancellation at the k-th POLL: the context counts how often the engine looks at it and cancels at the k-th look - for 11 goals that deliver answers (setof/bagof/sort/keysort/findall/length of thousands of elements, nested, under catch and \\+) every k <= 150 (300), ~150 (3000) further instants and every one of the last 250 (400) polls: the answers delivered are a prefix of the uncancelled run's, each exactly equal, fewer only with the context's error; long single steps: 12 goals, 4 of them uninterruptible for seconds (thorough: plus an error unwinding past 600000 exited catch/3 goals), each followed by a registered Go predicate that tells when the execution went on: it must not run after the cancelled call has returned whose work happens inside one built-in call (bagof/setof grouping of 60000 witnesses, sort/keysort/findall/length over 300000..600000 elements) cancelled 20, 200, 1000 ms in: the call returns within 20 s of cancel(). Distinct = (goal, position, k).",
		Explanation:   "state = a fresh real interpreter with the loop program; transition = the pending QueryContext/Next or ExecContext call, which must return the context's error; at most 64 bytes may reach the writer after cancel() returned (a step bound, not a clock); immediately afterwards eight follow-up queries (failing, single-answer, enumerated to exhaustion, erroneous) must answer as on a fresh interpreter; a call that has not returned after the 60 s horizon is reported by the worker's watchdog ('does not return')",
		Assumptions:   []string{"the implementation can observe a cancellation only at a poll, so instants fall into classes 'first poll that sees it'; the byte-triggered seam lands in every class of the loops that write", "the 60 s horizon is not a latency oracle (expected: microseconds)"},
		Work:          c13Work,
		Replay:        c13Replay,
		QuickDeadline: 170 * time.Second, ThoroughDeadline: 30 * time.Minute,
	})
}
