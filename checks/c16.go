package checks

import (
	"encoding/json"
	"fmt"
	"math"
	"os"
	"sort"
	"strings"
	"time"

	"verif/h"
	"verif/ref"
)

// C16 — relational built-ins enumerate exactly their relation in every call mode.

type c16Rel struct {
	Name   string
	Tuples [][]T
	Modes  []string // per argument: '+' bound, '-' unbound, '?' both
	// Probe: which tuples supply bound values (nil = all). The relation is computed over a larger
	// domain than the probes so that it is complete for every probed call.
	Probe func(tu []T) bool
	// Guard: whether the relation is complete for this call (nil = always)
	Guard func(mask string, bv []T) bool
	// Outside: per argument position, values that lie outside the relation's domain altogether (huge or
	// negative codes, lengths, indexes): a call with such a value bound may fail or raise an error but must
	// not answer
	Outside map[int][]T
}

type c16Case struct {
	Rel      string     `json:"rel"`
	Goal     *ref.JTerm `json:"goal"`
	Names    []string   `json:"names"`
	Expected []string   `json:"expected"` // multiset of canonical answers
	Outside  bool       `json:"outside,omitempty"` // a value outside the domain: no answer (failure or error)
	// Before: a call of a text built-in that ends in an error, run first on the same interpreter and caught: what it
	// leaves behind (a half-built name, a cached decoding) must not reach the call that follows
	Before string `json:"before,omitempty"`
}

var c16Poison = []string{
	"atom_chars(_, [a, b|_])", "atom_chars(_, [a|b])", "atom_codes(_, [0'h, 0'i|_])", "atom_codes(_, [0'h|i])", "number_chars(_, ['1', '2'|_])", "number_codes(_, [0'1|_])",
	"atom_chars(_, [a, 1.5])", "atom_chars(_, [a, foo(x)])", "atom_codes(_, [0'a, -1])", "number_codes(_, [0'1, 0'x])", "atom_length(_, _)", "sub_atom(_, _, _, _, ab)",
	"atom_concat(_, _, _)", "atom_concat(ab, _, _)", "char_code(_, _)", "atom_chars(_, ['\u65e5', b|_])", "atom_length(abc, foo)", "sub_atom(abc, B, 2, A, S), atom_length(S, foo)",
	"upcase_atom(_, _)", "atom_number(_, _)", "term_to_atom(_, _)", "number_chars(_, [' ', '1'|_])",
}

func c16Relations(thorough bool) []c16Rel {
	alpha := []string{"a", "b", "é", "日"}
	n := 2
	if thorough {
		n = 3
	}
	atoms := ref.Strings(alpha, n)
	small := ref.Strings(append(append([]string{}, alpha...), "\x00"), n) // sub_atom/5 also over the NUL character
	listsC := ref.Lists([]T{A("a"), A("b"), I(1)}, n)
	terms := []T{A("a"), I(1), ref.Flt(1.5), A("[]"), Cm("f", A("a")), Cm("f", A("a"), A("b")), Cm("g", A("b")), Cm("f", Cm("f", A("a"))),
		ref.List(A("a"), A("b")), Cm("f", A("a"), A("a"), A("c")), Cm("-", I(1), I(2)), Cm("é", A("日"))}
	ints := []int64{-2, -1, 0, 1, 2, math.MaxInt64 - 1, math.MaxInt64, math.MinInt64, math.MinInt64 + 1}
	atomsBig := ref.Strings(alpha, 2*n)
	listsBig := ref.Lists([]T{A("a"), A("b")}, 2*(n+1))
	smallAtom := func(t T) bool { a, ok := t.(ref.Atom); return ok && len([]rune(string(a))) <= n }
	smallList := func(t T) bool { e, _ := ref.ListSlice(t); return len(e) <= n+1 }
	return []c16Rel{
		{Name: "atom_length", Tuples: ref.RelAtomLength(atoms), Modes: []string{"+?"}},
		{Name: "atom_concat", Tuples: ref.RelAtomConcat(atomsBig), Modes: []string{"??+", "++?"},
			Probe: func(tu []T) bool { return smallAtom(tu[0]) && smallAtom(tu[1]) && smallAtom(tu[2]) },
			Guard: func(mask string, bv []T) bool { return true }},
		{Name: "sub_atom", Tuples: ref.RelSubAtom(small), Modes: []string{"+????"}},
		{Name: "atom_chars", Tuples: ref.RelAtomChars(atoms), Modes: []string{"+?", "-+"}},
		{Name: "atom_codes", Tuples: ref.RelAtomCodes(atoms), Modes: []string{"+?", "-+"},
			Outside: map[int][]T{1: {ref.List(I(1<<32 + 97)), ref.List(I(97), I(-1)), ref.List(I(math.MinInt64)), ref.List(I(0x110000))}}},
		{Name: "atom_length", Tuples: ref.RelAtomLength(atoms[:3]), Modes: []string{"+?"}, Outside: map[int][]T{1: {I(1<<32 + 1), I(math.MaxInt64)}}},
		{Name: "char_code", Tuples: ref.RelCharCode(append(append([]string{}, alpha...), "z", " ", "\n", "'", "ß", "\\")), Modes: []string{"+?", "-+"},
			Outside: map[int][]T{1: {I(1<<32 + 97), I(-1), I(1 << 31), I(math.MinInt64), I(math.MaxInt64), I(0x110000), I(0xD800), I(-4294967199)}}},
		{Name: "functor", Tuples: ref.RelFunctor(terms), Modes: []string{"+??"}},
		{Name: "arg", Tuples: ref.RelArg(terms), Modes: []string{"++?"}},
		{Name: "=..", Tuples: ref.RelUniv(terms), Modes: []string{"+?", "-+"}},
		{Name: "append", Tuples: ref.RelAppend(listsBig), Modes: []string{"++?", "??+"},
			Probe: func(tu []T) bool { return smallList(tu[0]) && smallList(tu[1]) && smallList(tu[2]) }},
		{Name: "length", Tuples: ref.RelLength(listsC), Modes: []string{"+?"}},
		{Name: "between", Tuples: ref.RelBetween(ints, 4), Modes: []string{"++?"},
			Guard: func(mask string, bv []T) bool {
				l, h := int64(bv[0].(ref.Int)), int64(bv[1].(ref.Int))
				return h < l || uint64(h-l) <= 4
			}},
		{Name: "nth0", Tuples: ref.RelNth(listsC, 0), Modes: []string{"?+?"}},
		{Name: "nth1", Tuples: ref.RelNth(listsC, 1), Modes: []string{"?+?"}},
		{Name: "member", Tuples: ref.RelMember(listsC), Modes: []string{"?+"}},
		{Name: "select", Tuples: ref.RelSelect(listsC), Modes: []string{"?+?"}},
		{Name: "succ", Tuples: ref.RelSucc([]int64{0, 1, 2, 41, math.MaxInt64 - 1}), Modes: []string{"+?", "?+"}},
	}
}

func canon1(t T) string { return ref.Canon(t, ref.NewNamer()) }

func c16Run(im *h.Impl, c *c16Case) (exp, act string, ok bool) {
	goal := ref.Dec(c.Goal, map[string]*ref.Var{})
	if c.Before != "" {
		im.Query("catch(("+c.Before+"), _, true).", nil, 1)
	}
	if c.Outside {
		o := im.Query(ref.Text(goal)+".", nil, 3)
		return "no answer (failure or an error)", o.String(), len(o.Answers) == 0
	}
	o, _ := im.QueryTerms(ref.Text(goal)+".", c.Names, 400)
	got := append([]string{}, o.Answers...)
	sort.Strings(got)
	want := append([]string{}, c.Expected...)
	sort.Strings(want)
	exp = "exhausted {" + strings.Join(want, " | ") + "}"
	act = o.Status + " " + o.Err + " {" + strings.Join(got, " | ") + "}"
	if o.Status != "exhausted" || len(got) != len(want) {
		return exp, act, false
	}
	for i := range got {
		if got[i] != want[i] {
			return exp, act, false
		}
	}
	return exp, act, true
}

var c16Calls int

func c16Work(w *h.W) {
	im := h.NewImpl()
	for _, rel := range c16Relations(w.Thorough()) {
		ar := len(rel.Tuples[0])
		// value sets per position, canonical strings of every tuple component
		canon := make([][]string, len(rel.Tuples))
		valSet := make([]map[string]T, ar)
		for i := range valSet {
			valSet[i] = map[string]T{}
		}
		for ti, tu := range rel.Tuples {
			canon[ti] = make([]string, ar)
			probe := rel.Probe == nil || rel.Probe(tu)
			for i, v := range tu {
				canon[ti][i] = canon1(v)
				if probe {
					valSet[i][canon[ti][i]] = v
				}
			}
		}
		vals := make([][]T, ar)
		for i := range vals {
			var ks []string
			for k := range valSet[i] {
				ks = append(ks, k)
			}
			sort.Strings(ks)
			for _, k := range ks {
				vals[i] = append(vals[i], valSet[i][k])
			}
		}
		for pos, outs := range rel.Outside {
			for _, ov := range outs {
				if !w.Mine() {
					continue
				}
				args := make([]T, ar)
				for i := range args {
					args[i] = V(fmt.Sprintf("V%d", i))
				}
				args[pos] = ov
				goal := &ref.Cmp{F: rel.Name, Args: args}
				w.Guard(goal)
				o := im.Query(ref.Text(goal)+".", nil, 3)
				w.Unguard()
				w.Eval(1)
				w.States(1)
				w.Transitions(1)
				w.Traces(1)
				w.Outcome(rel.Name + "/outside:" + o.Status)
				if len(o.Answers) > 0 {
					c := &c16Case{Rel: rel.Name, Goal: ref.Enc(goal), Outside: true}
					w.Violation(fmt.Sprintf("rel %s: a value outside the domain is answered", rel.Name), c, "no answer (failure or an error)", o.String(), 1)
				}
			}
		}
		seenMask := map[string]bool{}
		for _, mode := range rel.Modes {
			// all masks admitted by the mode
			var masks []string
			var rec func(i int, cur string)
			rec = func(i int, cur string) {
				if i == ar {
					masks = append(masks, cur)
					return
				}
				switch mode[i] {
				case '+':
					rec(i+1, cur+"+")
				case '-':
					rec(i+1, cur+"-")
				default:
					rec(i+1, cur+"+")
					rec(i+1, cur+"-")
				}
			}
			rec(0, "")
			for _, mask := range masks {
				if seenMask[mask] {
					continue
				}
				seenMask[mask] = true
				// bound-value combinations: projections of the tuples, plus one-position mutations
				combos := map[string][]T{}
				var order []string
				addCombo := func(bv []T) {
					var ks []string
					for i, v := range bv {
						if mask[i] == '+' {
							ks = append(ks, canon1(v))
						}
					}
					k := strings.Join(ks, "\x00")
					if _, ok := combos[k]; !ok {
						combos[k] = append([]T{}, bv...)
						order = append(order, k)
					}
				}
				for _, tu := range rel.Tuples {
					if rel.Probe == nil || rel.Probe(tu) {
						addCombo(tu)
					}
				}
				nproj := len(order)
				for pi := 0; pi < nproj; pi++ {
					base := combos[order[pi]]
					for i := 0; i < ar; i++ {
						if mask[i] != '+' {
							continue
						}
						lim := len(vals[i])
						if !w.Thorough() && lim > 12 {
							lim = 12
						}
						for _, v := range vals[i][:lim] {
							m := append([]T{}, base...)
							m[i] = v
							addCombo(m)
						}
					}
					if len(order) > w.Pick(6000, 60000) {
						break
					}
				}
				for _, k := range order {
					if !w.Mine() {
						continue
					}
					if w.Expired() {
						return
					}
					bv := combos[k]
					if rel.Guard != nil && !rel.Guard(mask, bv) {
						continue
					}
					args := make([]T, ar)
					var names []string
					for i := 0; i < ar; i++ {
						if mask[i] == '+' {
							args[i] = bv[i]
						} else {
							n := fmt.Sprintf("V%d", i)
							args[i] = V(n)
							names = append(names, n)
						}
					}
					// expected: the projections of all tuples matching the bound values
					var expected []string
					for ti, tu := range rel.Tuples {
						match := true
						for i := 0; i < ar; i++ {
							if mask[i] == '+' && canon[ti][i] != canon1(bv[i]) {
								match = false
								break
							}
						}
						if !match {
							continue
						}
						var vs []T
						for i := 0; i < ar; i++ {
							if mask[i] != '+' {
								vs = append(vs, tu[i])
							}
						}
						expected = append(expected, ref.CanonAnswer(vs))
					}
					c := &c16Case{Rel: rel.Name, Goal: ref.Enc(&ref.Cmp{F: rel.Name, Args: args}), Names: names, Expected: expected}
					if c16Calls%3 == 1 {
						c.Before = c16Poison[(c16Calls/3)%len(c16Poison)] // a fixed rotation: every relation and mode meets every one
					}
					w.Guard(c)
					// calls that involve the NUL character (the one-character atom whose internal value is 0) and every 37th
					// call run on a FRESH interpreter: the first call of a built-in on an interpreter is a state of its own
					use := im
					c16Calls++
					if strings.ContainsRune(c.Goal.Txt, 0) || strings.Contains(c.Goal.Txt, "\\x0\\") || c16Calls%37 == 0 {
						use = h.NewImpl()
					}
					exp, act, ok := c16Run(use, c)
					w.Unguard()
					w.Eval(1)
					w.States(1)
					w.Transitions(1)
					w.Traces(1)
					w.Outcome(fmt.Sprintf("%s/%s:%d", rel.Name, mask, min(len(expected), 3)))
					if len(expected) > 0 {
						w.Nontrivial(c.Goal.Txt)
					}
					w.Sample(c.Goal.Txt + " => " + act)
					if !ok {
						kind := "answers differ"
						if strings.Contains(act, "error") {
							kind = "error"
						}
						w.Violation(fmt.Sprintf("rel %s mode %s: %s", rel.Name, mask, kind), c, exp, act, len(c.Goal.Txt))
					}
				}
			}
		}
	}
	// modes that create variables or enumerate an infinite relation: compared with the reference
	// machine on the first answers
	special := []struct {
		q   string
		max int
	}{
		{"length(L, N)", 4}, {"length([a|T], N)", 3}, {"length(L, 2)", 2}, {"length([a, b|T], 1)", 2}, {"length([a|T], 3)", 2}, {"length(L, 0)", 2},
		{"append(X, Y, Z)", 4}, {"append(X, [a], Z)", 3}, {"append([a|X], Y, [a, b|T])", 4}, {"append(X, Y, [a, b|T])", 4}, {"append([a], Y, Z)", 2}, {"append([a, b], [c|T], Z)", 2},
		{"between(9223372036854775806, 9223372036854775807, X)", 4}, {"between(-9223372036854775808, -9223372036854775807, X)", 4}, {"between(1, 3, X), X > 1", 4},
		{"member(X, [a|T])", 3}, {"member(X, [a, b|T])", 4}, {"select(X, [a|T], R)", 3}, {"select(a, L, [b])", 3},
		{"functor(T, foo, 3)", 2}, {"functor(T, foo, 0)", 2}, {"functor(T, 1.5, 0)", 2}, {"functor(T, '.', 2)", 2}, {"T =.. [foo, X, Y]", 2}, {"T =.. [foo]", 2}, {"T =.. [1]", 2}, {"f(X, b) =.. [F, a|R]", 2},
		{"arg(1, f(X, Y), a), arg(2, f(X, Y), Z)", 2}, {"atom_length('', N)", 2},
	}
	for _, s := range special {
		if !w.Mine() {
			continue
		}
		pc := &h.ProgCase{Steps: []h.ProgStep{h.Query(rd(s.q), s.max)}}
		runProgCase(w, "special", pc, 1)
	}
	c16Chains(w)
	c16FreshWork(w)
}

// chains: the input list of a call is itself the answer of an earlier built-in (so it may be held
// in any internal representation, with any spare capacity), and TWO calls extend the same list with
// both answers kept: an answer must not change when a later call runs.
func c16Chains(w *h.W) {
	raw := []string{"a", "é", "c", "日", "e", "f", "g", "h", "i", "j"}
	elems := make([]string, len(raw))
	for i, r := range raw {
		elems[i] = ref.QuoteAtom(r)
	}
	producers := []func(n int) string{
		func(n int) string { return "L = [" + strings.Join(elems[:n], ", ") + "]" },
		func(n int) string {
			if n == 0 {
				return "append([], [], L)"
			}
			return "append([" + strings.Join(elems[:n-1], ", ") + "], [" + elems[n-1] + "], L)"
		},
		func(n int) string { return "findall(E, member(E, [" + strings.Join(elems[:n], ", ") + "]), L)" },
		func(n int) string {
			rev := []string{}
			for i := n - 1; i >= 0; i-- {
				rev = append(rev, elems[i])
			}
			return "sort([" + strings.Join(rev, ", ") + "], L)"
		},
		func(n int) string { return "T0 =.. [k" + strings.Repeat(", z", 0) + strings.Join(append([]string{""}, elems[:n]...), ", ") + "], T0 =.. [_|L]" },
		func(n int) string { return "atom_chars('" + strings.Join(raw[:n], "") + "', L)" },
		func(n int) string { return "copy_term([" + strings.Join(elems[:n], ", ") + "], L)" },
		func(n int) string { return fmt.Sprintf("length(L, %d)", n) },
		func(n int) string {
			vs := []string{}
			for i := 0; i < n; i++ {
				vs = append(vs, fmt.Sprintf("W%d", i))
			}
			return "term_variables(k(" + strings.Join(append(vs, "nothing"), ", ") + "), L)"
		},
		func(n int) string {
			return "findall(E, member(E, [" + strings.Join(elems[:n], ", ") + "]), L0), append(L0, [z], L)"
		},
		func(n int) string { return "atom_codes('" + strings.Join(raw[:n], "") + "', L)" },
		func(n int) string {
			if n == 0 {
				return "L = []"
			}
			return "append(L, [_], [" + strings.Join(elems[:n], ", ") + ", z])"
		},
	}
	consumers := []string{
		"append(L, [x], %s)", "append(L, [y, z], %s)", "append(L, T%s, %s)", "append([w], L, %s)", "%s = [w|L]", "append(L, L, %s)", "%s =.. [g|L]",
		"select(a, L, %s)", "append(%s, [_], L)", "sort(L, %s)", "append(L, [x], Q%s), append(Q%s, [v], %s)",
	}
	mk := func(c, r string) string {
		out := ""
		for i := 0; i < len(c); i++ {
			if c[i] == '%' && i+1 < len(c) && c[i+1] == 's' {
				out += r
				i++
			} else {
				out += string(c[i])
			}
		}
		return out
	}
	for pi, pr := range producers {
		for n := 0; n <= w.Pick(9, 10); n++ {
			if !w.Mine() {
				continue
			}
			if w.Expired() {
				return
			}
			pc := &h.ProgCase{Independent: true, DQ: "codes"}
			for _, c1 := range consumers {
				for _, c2 := range consumers {
					q := pr(n) + ", " + mk(c1, "R1") + ", " + mk(c2, "R2")
					st := h.Query(rd(q), 12)
					st.Vars = []string{"L", "R1", "R2"}
					pc.Steps = append(pc.Steps, st)
				}
			}
			runProgCase(w, "chains", pc, pi+n)
		}
	}
}

// fresh identity: atoms that a relation produces for the first time in the life of the process (names never
// interned before) must be ONE atom per text: answers that are == also unify, with each other, across calls and
// with the atom made through another route.
type c16FreshCase struct {
	Fresh bool   `json:"fresh_identity"`
	Name  string `json:"name"`
	Goal  string `json:"goal"`
}

var c16FreshGoals = []string{
	"findall(S, sub_atom(A, _, _, _, S), L), \\+ (member(X, L), member(Y, L), X == Y, X \\= Y)",
	"sub_atom(A, 0, H, _, S), H > 1, sub_atom(A, H, H, _, S2), S == S2, S = S2",
	"sub_atom(A, 0, H, _, S), H > 1, S \\== A, atom_concat(S, R, A), S == R, S = R",
	"findall(X-Y, atom_concat(X, Y, A), L), \\+ (member(X1-_, L), member(_-Y2, L), X1 == Y2, X1 \\= Y2)",
	"atom_chars(A, Cs), append(Pre, Post, Cs), Pre = [_, _|_], atom_chars(P1, Pre), atom_chars(P2, Post), P1 == P2, P1 = P2",
	"atom_length(A, N), H is N // 2, sub_atom(A, 0, H, _, S), atom_codes(S, Cs), atom_codes(S3, Cs), S = S3",
	"sub_atom(A, B, 3, 0, S), sub_atom(A, 1, 3, _, S4), (S == S4 -> S = S4 ; true)",
}

var c16FreshSeq int

func c16FreshRun(c *c16FreshCase) (exp, act string, ok bool) {
	im := h.NewImpl()
	im.Timeout = 90 * time.Second
	var cs []string
	for _, r := range c.Name {
		cs = append(cs, fmt.Sprint(int(r)))
	}
	o := im.Query("atom_codes(A, ["+strings.Join(cs, ", ")+"]), "+c.Goal+".", nil, 2)
	exp = "succeeds: equal texts are one atom"
	if o.Status == "error" && strings.Contains(o.Err, "$timeout") {
		return exp, "undecided: the resource guard passed", true
	}
	if o.Status == "error" {
		return exp, o.String(), false
	}
	if len(o.Answers) == 0 {
		return exp, "fails: two atoms with the same text do not unify", false
	}
	return exp, "succeeds", true
}

func c16FreshWork(w *h.W) {
	stems := []string{"ab", "xyz", "éa", "日本", "qrstu"}
	for round := 0; round < w.Pick(2, 6); round++ {
		for gi, g := range c16FreshGoals {
			for _, st := range stems {
				if !w.Mine() {
					continue
				}
				c16FreshSeq++
				// a name whose substrings no execution of this process has seen: a unique tag, doubled
				half := fmt.Sprintf("%s%dv%dw%d", st, w.Shard, os.Getpid()%1000, c16FreshSeq)
				c := &c16FreshCase{Fresh: true, Name: half + half, Goal: g}
				w.Guard(c)
				exp, act, ok := c16FreshRun(c)
				w.Unguard()
				w.Eval(1)
				w.States(1)
				w.Transitions(1)
				w.Traces(1)
				w.Nontrivial(fmt.Sprint("fresh:", gi, st, round))
				w.Outcome("fresh-identity:" + fmt.Sprint(ok))
				if !ok {
					w.ViolationNoConfirm(fmt.Sprintf("fresh identity: goal %d: equal texts produced for the first time are not one atom", gi), c, exp, act)
				}
			}
		}
	}
}

func c16Replay(b []byte) (string, string, bool) {
	var fc c16FreshCase
	if json.Unmarshal(b, &fc) == nil && fc.Fresh {
		return c16FreshRun(&fc)
	}
	var c c16Case
	if json.Unmarshal(b, &c) == nil && c.Rel != "" {
		return c16Run(h.NewImpl(), &c)
	}
	return h.ProgReplay(b)
}

func init() {
	h.Register(&h.Check{
		ID: "C16",
		Rule: "for each of the 17 predicates: the COMPLETE finite relation over a domain is computed by brute force (atoms of <= 2/3 characters over {a,b,é,日} (sub_atom/5: plus the NUL character) so that byte and character offsets differ; calls involving NUL and every 37th call run on a fresh interpreter; lists of <= 3/4 elements; 12 terms; integers near 0 and near +-2^63), then for every instantiation pattern the predicate's modes admit and every combination of bound values (all projections of the relation plus all one-position mutations, i.e. matching and non-matching calls) the call is run to exhaustion and its answers compared AS A MULTISET with the matching tuples; modes that create variables or enumerate infinitely (length/2, append/3, between/3 with inf, member/select on partial lists, functor/3 and =../2 construction) are compared with the reference machine on their first answers; values outside the domain altogether (codes beyond 32 bits, negative, surrogate, beyond U+10FFFF; huge lengths) must not be answered; chains: the input list is itself the answer of one of 12 built-in constructions (literal, append/3, findall/3, sort/2, =../2, atom_chars/2, atom_codes/2, copy_term/2, length/2, term_variables/2, nested, append in split mode) at every length 0..9 (10), and every ordered pair of 11 calls that extend/decompose that same list runs in one conjunction with both answers kept, compared with the reference machine; fresh identity: atoms whose substrings no execution of the process has interned before (unique doubled names, ASCII and multi-byte) through 7 goals over sub_atom/5, atom_concat/3, atom_chars/2, atom_codes/2: answers with equal text are one atom (== implies unifiable), within a call, across calls and across routes. Non-trivial = at least one matching tuple; distinct = goal text.; every third call is preceded, on the same interpreter, by one of 22 calls of the text built-ins that end in an error (partial and improper lists with a valid prefix, invalid elements, unbound arguments), caught, in a fixed rotation",
		Explanation: "state = one call pattern with bound values; transition = the call run to exhaustion on the real interpreter; oracle = the brute-force relation filtered by the bound arguments (each tuple exactly once, nothing else) - which also gives the monotonicity clause, since a more instantiated call is compared with the matching subset of the same relation",
		Assumptions: []string{"ref/relations: brute-force definitions (all splits, all (B,L,A) triples, all index/element pairs ...) with text measured in runes", "member/2 and select/3 answer once per occurrence (position) of the element", "errors for calls outside the modes belong to C05"},
		Work:        c16Work,
		Replay:      c16Replay,
		QuickDeadline: 150 * time.Second, ThoroughDeadline: 25 * time.Minute,
	})
}
