//go:build vsched

package checks

import (
	"bytes"
	"encoding/json"
	"fmt"
	"regexp"
	"sort"
	"strings"
	"time"

	"github.com/ichiban/prolog"
	"github.com/ichiban/prolog/engine"
	"github.com/ichiban/prolog/verifshim/vsync"

	"verif/h"
)

// C12 — the Solutions iterator never blocks, counts answers exactly and stops on Close.
// The real interpreter.go / solutions.go run with their channel operations and go statement routed
// through the vsync shim; every history is executed under ALL interleavings of the consumer and
// the search goroutine(s) (stateless DFS, preemption bounded) - a call that blocks is a state
// with no enabled thread.

type c12Query struct {
	Name    string
	Text    string
	Answers []int  // value of X per answer
	Err     string // error text after the answers ("" = none)
	Inf     bool
	Trace   string // output written before each answer (one char per answer), if any
	Setup   string // program text consulted before the query
	NoVar   int    // the query has no variable and this many answers
	NoSide  bool   // generator without the side-effect goals (pairs family)
	Gen     bool   // generator family: the answers are discovered by one sequential run to exhaustion
	vals    []string
	known   bool
}

var c12Queries = []c12Query{
	{Name: "zero", Text: "fail."},
	{Name: "one", Text: "X = 1.", Answers: []int{1}},
	{Name: "two", Text: "(X = 1 ; X = 2).", Answers: []int{1, 2}},
	{Name: "three-writing", Text: "(put_char(a), X = 1 ; put_char(b), X = 2 ; put_char(c), X = 3).", Answers: []int{1, 2, 3}, Trace: "abc"},
	{Name: "error0", Text: "throw(e).", Err: "e"},
	{Name: "error1", Text: "(X = 1 ; throw(e)).", Answers: []int{1}, Err: "e"},
	{Name: "error2", Text: "(X = 1 ; X = 2 ; throw(e)).", Answers: []int{1, 2}, Err: "e"},
	{Name: "infinite-writing", Text: "repeat, put_char(r), X = 7.", Answers: []int{7}, Inf: true, Trace: "r"},
	// answers that bind nothing at all (the answer's environment is the empty one)
	{Name: "cut-only", Text: "!.", NoVar: 1},
	{Name: "true-or-true", Text: "(! ; true).", NoVar: 1},
	{Name: "two-empty", Text: "(true ; true).", NoVar: 2},
	// enumerations that end at the ends of the integer range: the answers are given, not discovered, because "exactly
	// once per answer" needs to know the answers
	{Name: "between-to-max", Text: "between(9223372036854775806, 9223372036854775807, X).", Answers: []int{9223372036854775806, 9223372036854775807}},
	{Name: "between-max-max", Text: "between(9223372036854775807, 9223372036854775807, X).", Answers: []int{9223372036854775807}},
	{Name: "between-from-min", Text: "between(-9223372036854775808, -9223372036854775807, X).", Answers: []int{-9223372036854775808, -9223372036854775807}},
	{Name: "count-to-max", Text: "call_nth(between(9223372036854775806, 9223372036854775807, _), X).", Answers: []int{1, 2}},
	{Name: "empty-range", Text: "between(3, 1, X).", Answers: nil},
}

// c12Generators: every nondeterministic control construct, built-in and library predicate, each
// followed by a goal with a visible side effect (one character per answer).
var c12Generators = []string{
	"between(1, 3, X)", "member(X, [1, 2, 3])", "nth0(X, [a, b, c], _)", "nth1(X, [a, b, c], _)", "nth0(_, [1, 2, 3], X)", "nth1(_, [1, 2, 3], X)",
	"append(_, [X|_], [1, 2, 3])", "select(X, [1, 2, 3], _)", "length(_, X)", "clause(p(X), true)", "retract(p(X))", "p(X)",
	"current_op(_, _, -), X = 1", "sub_atom(abc, X, 1, _, _)", "atom_concat(A, _, abc), atom_length(A, X)", "current_prolog_flag(_, _), X = 1",
	"stream_property(_, _), X = 1", "call_nth(member(_, [a, b, c]), X)", "bagof(Y, member(Y-X, [a-1, b-2, c-3]), _)", "setof(Y, member(Y-X, [a-1, b-2, c-3]), _)",
	"catch(member(X, [1, 2, 3]), _, true)", "call(member(X, [1, 2, 3]))", "call(member, X, [1, 2, 3])", "findall(Y, member(Y, [1, 2, 3]), L), member(X, L)",
	"phrase(gen, [X])", "between(1, inf, X)", "current_predicate(p/X)", "current_predicate(Q/1), atom_length(Q, X)", "current_char_conversion(_, _), X = 1", "(X = 1 ; X = 2 ; X = 3)",
	"(member(X, [1, 2]) -> true ; X = 3)", "(fail -> true ; member(X, [1, 2, 3]))", "\\+ fail, member(X, [1, 2, 3])", "once(member(_, [a, b])), member(X, [1, 2, 3])",
	"rec(X)", "member(X, [1, 2, 3]), (X == 3 -> throw(oops) ; true)", "atom_length(A, X)", "member(X, [1, 2|_])",
	"member(X, [1, 2, 3]), !", "!, member(X, [1, 2, 3])", "member(X, [1, 2, 3]), X >= 2, !", "X = 1, !", "retract(p(X)), !",
	"forall_absent(X)", "between(1, 3, X), \\+ X = 2", "select(X, [1, 2, 3], R), member(Y, R), Y > X",
	// generators whose successor step meets the ends of the integer range
	"between(9223372036854775805, 9223372036854775807, X)", "between(9223372036854775807, 9223372036854775807, X)", "between(9223372036854775806, inf, X)",
	"between(-9223372036854775808, -9223372036854775806, X)", "between(-9223372036854775808, -9223372036854775808, X)", "between(3, 1, X)", "between(2, 2, X)",
	"between(9223372036854775806, 9223372036854775807, Y), X is Y - 9223372036854775800", "call_nth(between(9223372036854775806, 9223372036854775807, _), X)",
}

var c12VarRe = regexp.MustCompile(`_[0-9]+`)

const c12GenSetup = ":- dynamic(p/1). :- dynamic(seen/1). p(1). p(2). p(3). gen --> [1] ; [2] ; [3]. rec(1). rec(X) :- rec(Y), X is Y + 1."

// c12Pairs: the SAME nondeterministic built-in on different data in two Solutions of one interpreter that are iterated in
// an interleaved fashion: each sees the answers it sees alone.
var c12Pairs = [][2]string{
	{"sub_atom(abcde, _, 2, _, X).", "sub_atom(vwxyz, _, 2, _, X)."},
	{"sub_atom(abcde, X, _, 0, _).", "sub_atom(vw, X, _, 0, _)."},
	{"atom_concat(X, _, abc).", "atom_concat(X, _, xyz)."},
	{"between(1, 4, X).", "between(11, 14, X)."},
	{"member(X, [1, 2, 3, 4]).", "member(X, [a, b, c, d])."},
	{"nth0(_, [1, 2, 3, 4], X).", "nth0(_, [a, b, c, d], X)."},
	{"nth1(X, [a, b, c, d], _).", "nth1(X, [a, b], _)."},
	{"atom_chars(abcd, L), member(X, L).", "atom_chars(wxyz, L), member(X, L)."},
	{"atom_codes(abcd, L), member(X, L).", "atom_codes(wxyz, L), member(X, L)."},
	{"select(X, [1, 2, 3, 4], _).", "select(X, [a, b, c, d], _)."},
	{"append(_, [X|_], [1, 2, 3, 4]).", "append(_, [X|_], [a, b, c, d])."},
	{"bagof(Y, member(Y-X, [a-1, b-2, c-3, d-4]), _).", "bagof(Y, member(Y-X, [a-5, b-6, c-7, d-8]), _)."},
	{"findall(Y, member(Y, [1, 2, 3, 4]), L), member(X, L).", "findall(Y, member(Y, [a, b, c, d]), L), member(X, L)."},
	{"clause(p(X), true).", "p(X)."},
	{"current_op(X, xfx, is).", "current_op(X, yfx, +)."},
	{"sort([d, c, b, a], L), member(X, L).", "sort([4, 3, 2, 1], L), member(X, L)."},
	{"number_codes(X0, \"12\"), between(X0, 15, X).", "number_codes(X0, \"42\"), between(X0, 45, X)."},
	{"atom_length(abc, N), between(1, N, X).", "atom_length(abcdefg, N), between(5, N, X)."},
	{"phrase(gen, [X]).", "phrase(gen, [_, X|_])."},
	{"catch(member(X, [1, 2, 3, 4]), _, true).", "catch(member(X, [a, b, c, d]), _, true)."},
}

var c12PairBase int

func init() {
	c12PairBase = -1
	for _, g := range c12Generators {
		// two side effects in both orders: one that the engine performs at once (a database update) and
		// one that it defers (output)
		c12Queries = append(c12Queries, c12Query{Name: "gen " + g, Text: g + ", assertz(seen(X)), put_char(t).", Setup: c12GenSetup, Gen: true})
		c12Queries = append(c12Queries, c12Query{Name: "gen' " + g, Text: g + ", put_char(t), assertz(seen(X)).", Setup: c12GenSetup, Gen: true})
	}
	c12PairBase = len(c12Queries)
	for _, pr := range c12Pairs {
		c12Queries = append(c12Queries, c12Query{Name: "pair-a " + pr[0], Text: pr[0], Setup: c12GenSetup, Gen: true, NoSide: true},
			c12Query{Name: "pair-b " + pr[1], Text: pr[1], Setup: c12GenSetup, Gen: true, NoSide: true})
	}
}

// c12Discover runs a generator query sequentially (default schedule) to find its answers.
func c12Discover(q *c12Query) {
	if q.known {
		return
	}
	q.known = true
	if !q.Gen {
		for _, a := range q.Answers {
			q.vals = append(q.vals, fmt.Sprint(a))
		}
		for i := 0; i < q.NoVar; i++ {
			q.vals = append(q.vals, "") // an answer without a value to compare
		}
		return
	}
	vsync.MutexPoints = false
	p := prolog.New(strings.NewReader(""), &bytes.Buffer{})
	body := func() {
		if err := p.Exec(q.Setup); err != nil {
			panic(err)
		}
		sols, err := p.Query(q.Text)
		if err != nil {
			panic(err)
		}
		n := 0
		for n < 5 && sols.Next() {
			var dst struct{ X interface{} }
			if err := sols.Scan(&dst); err != nil {
				panic(err)
			}
			q.vals = append(q.vals, fmt.Sprint(dst.X))
			n++
		}
		if n == 5 {
			q.Inf = true
		} else if err := sols.Err(); err != nil {
			q.Err = c12VarRe.ReplaceAllString(err.Error(), "_")
		}
		sols.Close()
	}
	if r := vsync.Run(body, nil, 1000000); r.Panic != nil || r.Deadlock {
		panic(fmt.Sprintf("c12Discover %s: %v deadlock=%v", q.Text, r.Panic, r.Deadlock))
	}
}

type c12Case struct {
	Query    int    `json:"query"`
	History  string `json:"history"` // letters N S E C
	History2 string `json:"history2,omitempty"`
	Query2   int    `json:"query2,omitempty"`
	Merge    string `json:"merge,omitempty"` // for two iterators: which iterator performs each step (a/b)
	Schedule []int  `json:"schedule,omitempty"`
	Bound    int    `json:"bound"`
}

// model of one iterator
type c12Model struct {
	q         *c12Query
	pos       int
	closed    bool
	ended     bool // a Next returned false because the search ended (exhausted or error)
	curValid  bool
	cur       string
	closeSeen bool
	trueNexts int
}

type c12Obs struct {
	problems []string
}

func (o *c12Obs) bad(f string, a ...interface{}) { o.problems = append(o.problems, fmt.Sprintf(f, a...)) }

// apply one call to the real iterator and to the model, comparing the results
func c12Step(op byte, sols *prolog.Solutions, m *c12Model, out *bytes.Buffer, o *c12Obs, tag string) {
	switch op {
	case 'N':
		got := sols.Next()
		want := false
		if !m.closed && !m.ended {
			if m.q.Inf || m.pos < len(m.q.vals) {
				want = true
				if m.pos < len(m.q.vals) {
					m.cur = m.q.vals[m.pos]
				} else if !m.q.Gen {
					m.cur = m.q.vals[0]
				} else {
					m.cur = "" // beyond the discovered answers of an unbounded generator: value not compared
				}
				m.pos++
				m.trueNexts++
			} else {
				m.ended = true
			}
		}
		m.curValid = want
		if got != want {
			o.bad("%sNext #%d returned %v, expected %v", tag, m.pos, got, want)
		}
	case 'S':
		var dst struct{ X interface{} }
		err := sols.Scan(&dst)
		if m.curValid && !m.closed {
			if err != nil {
				o.bad("%sScan after a true Next failed: %v", tag, err)
			} else if m.cur != "" && fmt.Sprint(dst.X) != m.cur {
				o.bad("%sScan reports X = %v, the most recent answer has X = %v", tag, dst.X, m.cur)
			}
		}
		// before the first Next / after a false Next / after Close: unspecified, only termination
	case 'E':
		err := sols.Err()
		want := ""
		if m.ended && !m.closeSeenBeforeEnd() && m.q.Err != "" {
			want = m.q.Err
		}
		got := ""
		if err != nil {
			got = c12VarRe.ReplaceAllString(err.Error(), "_")
		}
		if want == "" && got != "" && !(m.q.Err != "" && strings.Contains(got, m.q.Err)) {
			o.bad("%sErr reports %q although the search did not end with an error", tag, got)
		}
		if want != "" && !strings.Contains(got, want) {
			o.bad("%sErr reports %q, expected the terminating error %q", tag, got, want)
		}
	case 'C':
		err := sols.Close()
		if !m.closed {
			if err != nil {
				o.bad("%sfirst Close returned %v", tag, err)
			}
		} else if err != prolog.ErrClosed {
			o.bad("%srepeated Close returned %v, expected ErrClosed", tag, err)
		}
		m.closed = true
		m.curValid = false
	}
}

func (m *c12Model) closeSeenBeforeEnd() bool { return false }

// c12Run executes one history under one schedule; returns the problems found and the result.
func c12Run(c *c12Case, prefix []int) ([]string, *vsync.Result) {
	vsync.MutexPoints = false
	out := &bytes.Buffer{}
	p := prolog.New(strings.NewReader(""), out) // created outside the controlled region
	o := &c12Obs{}
	c12Discover(&c12Queries[c.Query])
	ma := &c12Model{q: &c12Queries[c.Query]}
	var mb *c12Model
	if c.History2 != "" {
		c12Discover(&c12Queries[c.Query2])
		mb = &c12Model{q: &c12Queries[c.Query2]}
	}
	if ma.q.Setup != "" {
		if err := p.Exec(ma.q.Setup); err != nil { // sequential: no goroutine is involved in Exec
			o.bad("setup failed: %v", err)
		}
	}
	outAtClose := -1
	body := func() {
		sa, err := p.Query(ma.q.Text)
		if err != nil {
			o.bad("Query failed: %v", err)
			return
		}
		var sb *prolog.Solutions
		if mb != nil {
			sb, err = p.Query(mb.q.Text)
			if err != nil {
				o.bad("Query failed: %v", err)
				return
			}
		}
		if mb == nil {
			for i := 0; i < len(c.History); i++ {
				c12Step(c.History[i], sa, ma, out, o, "")
				if c.History[i] == 'C' && outAtClose < 0 {
					outAtClose = out.Len()
				}
			}
			return
		}
		ia, ib := 0, 0
		for _, who := range c.Merge {
			if who == 'a' {
				c12Step(c.History[ia], sa, ma, out, o, "A: ")
				ia++
			} else {
				c12Step(c.History2[ib], sb, mb, out, o, "B: ")
				ib++
			}
		}
	}
	r := vsync.Run(body, prefix, 100000)
	if r.Deadlock {
		o.bad("a call blocks forever (no enabled thread while the consumer is inside a call); events: %s", c12Events(r))
	}
	if r.Panic != nil {
		o.bad("panic: %v", r.Panic)
	}
	// the background goroutine terminates after Close / exhaustion
	for _, m := range []*c12Model{ma, mb} {
		if m != nil && (m.closed || m.ended) && len(r.Blocked) > 0 && mb == nil {
			o.bad("the search goroutine is still parked at the end although the iterator was closed/exhausted (leak): %s", r.Final)
		}
	}
	if mb != nil && ma.closedOrEnded() && mb.closedOrEnded() && len(r.Blocked) > 0 {
		o.bad("a search goroutine is still parked at the end although both iterators were closed/exhausted (leak): %s", r.Final)
	}
	// no goal runs after Close has returned
	if mb == nil && outAtClose >= 0 && out.Len() != outAtClose {
		o.bad("goals ran after Close returned: output grew from %d to %d bytes (%q)", outAtClose, out.Len(), out.String())
	}
	// the trace written equals one character per answer requested (never more goals than asked for)
	if mb == nil && ma.q.Trace != "" && !ma.q.Inf {
		if !strings.HasPrefix(ma.q.Trace, out.String()) {
			o.bad("output %q is not a prefix of %q", out.String(), ma.q.Trace)
		}
	}
	// generator family: exactly one side effect per answer handed out - none run ahead, none after Close
	if mb == nil && ma.q.Gen && !ma.q.NoSide && !r.Deadlock {
		if want := strings.Repeat("t", ma.trueNexts); out.String() != want {
			o.bad("the goal after the generator ran %d times for %d answers handed out", out.Len(), ma.trueNexts)
		}
		if cs, _ := engine.VerifClauses(&p.VM, "seen", 1); len(cs) != ma.trueNexts {
			o.bad("the goal after the generator ran %d times for %d answers handed out (clauses asserted)", len(cs), ma.trueNexts)
		}
	}
	return o.problems, r
}

func (m *c12Model) closedOrEnded() bool { return m.closed || m.ended }

func c12Events(r *vsync.Result) string {
	var sb strings.Builder
	n := len(r.Events)
	from := 0
	if n > 14 {
		from = n - 14
	}
	for _, e := range r.Events[from:] {
		fmt.Fprintf(&sb, "t%d:%s#%d ", e.Thread, e.Op, e.Obj)
	}
	return sb.String()
}

func c12Sig(problem string) string {
	// strip the variable parts
	s := digitsRe.ReplaceAllString(problem, "N")
	if i := strings.Index(s, "; events:"); i >= 0 {
		s = s[:i]
	}
	if i := strings.Index(s, "(leak)"); i >= 0 {
		s = s[:i+6]
	}
	if i := strings.Index(s, "output grew"); i >= 0 {
		s = s[:i] + "output grew"
	}
	if len(s) > 110 {
		s = s[:110]
	}
	return "iter: " + s
}

// explore all schedules of one history; report per-problem violations
func c12Explore(w *h.W, c *c12Case, bound int) (finals map[string]bool) {
	finals = map[string]bool{}
	var lastProblems []string
	w.Guard(c)
	st := vsync.Explore(func() func() { return nil }, 0, 1, func(r *vsync.Result) bool { return false })
	_ = st
	// Explore needs a fresh setup per run: c12Run does the setup itself, so drive the DFS here
	var explore func(prefix []int) bool
	execs := 0
	explore = func(prefix []int) bool {
		problems, r := c12Run(c, prefix)
		execs++
		w.Transitions(len(r.Events))
		if r.Diverged != "" {
			w.Extra("diverged", 1)
			w.Note("schedule replay diverged: " + r.Diverged)
		}
		finals[r.Final+fmt.Sprint(len(problems) > 0)] = true
		if len(problems) > 0 {
			lastProblems = problems
			vc := *c
			vc.Schedule = r.Choices()
			vc.Bound = bound
			for _, p := range problems {
				w.Violation(c12Sig(p), &vc, "every call returns; results as the sequential iterator model", p, len(c.History)+len(c.History2)+len(vc.Schedule))
			}
			return false
		}
		pre := 0
		for i := 0; i < len(r.Points); i++ {
			p := r.Points[i]
			if i >= len(prefix) {
				for alt := 1; alt < len(p.Enabled); alt++ {
					cost := pre
					if p.RunningEnabled {
						cost++
					}
					if cost > bound {
						continue
					}
					np := append(append([]int{}, r.Choices()[:i]...), alt)
					if !explore(np) {
						return false
					}
				}
			}
			if p.RunningEnabled && p.Chosen != 0 {
				pre++
			}
		}
		return true
	}
	explore(nil)
	w.Unguard()
	w.Eval(execs)
	w.Extra("schedules", int64(execs))
	_ = lastProblems
	return finals
}

func c12Work(w *h.W) {
	ops := "NSEC"
	bound := w.Pick(2, 3)
	maxLen := w.Pick(6, 7)
	// (a) single iterator: all histories up to maxLen; BFS with a state key so that the evidence
	// can say whether a fixpoint of (model state, shim state, last call) was reached
	for qi := range c12Queries {
		if c12Queries[qi].Gen {
			continue
		}
		seen := map[string]int{}
		frontier := []string{""}
		for depth := 1; depth <= maxLen; depth++ {
			var next []string
			newKeys := 0
			for _, hist := range frontier {
				for _, op := range ops {
					h2 := hist + string(op)
					if !w.Mine() {
						// every worker walks the same tree; a history is executed by one of them, but
						// all of them need its key to continue: histories are cheap, so each worker
						// runs its own share and extends everything
						next = append(next, h2)
						continue
					}
					c := &c12Case{Query: qi, History: h2, Bound: bound}
					finals := c12Explore(w, c, bound)
					var ks []string
					for k := range finals {
						ks = append(ks, k)
					}
					sort.Strings(ks)
					key := c12ModelKey(qi, h2) + "|" + strings.Join(ks, ",") + "|" + string(op)
					if _, ok := seen[key]; !ok {
						seen[key] = depth
						newKeys++
						w.States(1)
						w.Nontrivial(fmt.Sprintf("%d:%s", qi, key))
					}
					w.Outcome(fmt.Sprintf("%s:%s", c12Queries[qi].Name, strings.Join(ks, ",")))
					w.Traces(1)
					w.Sample(fmt.Sprintf("%s history=%s finals=%v", c12Queries[qi].Text, h2, ks))
					next = append(next, h2)
				}
			}
			frontier = next
			if w.Expired() {
				return
			}
			w.Extra(fmt.Sprintf("new_state_keys_depth_%d", depth), int64(newKeys))
		}
	}
	// (c) generator family: every nondeterministic construct x histories that stop early, late and never
	genHist := []string{"C", "NC", "NSC", "NNC", "NNSCN", "NNNC", "NNNNE", "NNNNNCE", "NCNE", "NSNSNSNSE"}
	if w.Thorough() {
		genHist = append(genHist, "NNNNNNC", "NENC", "NNCC", "SNC", "NNNNNNNE")
	}
	for qi := range c12Queries {
		if !c12Queries[qi].Gen || c12Queries[qi].NoSide {
			continue
		}
		for _, hist := range genHist {
			if !w.Mine() {
				continue
			}
			if w.Expired() {
				return
			}
			c := &c12Case{Query: qi, History: hist, Bound: bound}
			finals := c12Explore(w, c, bound)
			var ks []string
			for k := range finals {
				ks = append(ks, k)
			}
			sort.Strings(ks)
			w.States(1)
			w.Traces(1)
			w.Nontrivial(fmt.Sprintf("%d:%s", qi, hist))
			w.Outcome("gen:" + strings.Join(ks, ","))
		}
	}
	// (d) the same built-in on different data in two Solutions, iterated in every interleaved order of 3 Next+Scan each
	for pi := range c12Pairs {
		qa, qb := c12PairBase+2*pi, c12PairBase+2*pi+1
		ha, hb := "NSNSNSC", "NSNSNSC"
		var merges []string
		var mg func(a, b int, cur string)
		mg = func(a, b int, cur string) {
			if a == 3 && b == 3 {
				merges = append(merges, cur)
				return
			}
			if a < 3 {
				mg(a+1, b, cur+"a")
			}
			if b < 3 {
				mg(a, b+1, cur+"b")
			}
		}
		mg(0, 0, "")
		for _, m := range merges {
			if !w.Mine() {
				continue
			}
			if w.Expired() {
				return
			}
			// every step of the merge stands for one Next+Scan of that iterator; both are closed at the end
			full := ""
			for _, ch := range m {
				full += string(ch) + string(ch)
			}
			full += "ab"
			c := &c12Case{Query: qa, Query2: qb, History: ha, History2: hb, Merge: full, Bound: 1}
			finals := c12Explore(w, c, w.Pick(0, 1))
			w.States(1)
			w.Traces(1)
			w.Nontrivial(fmt.Sprintf("pair %d %s", pi, m))
			w.Outcome(fmt.Sprintf("pair:%d", len(finals)))
		}
	}
	// (b) two iterators on one interpreter, all merges of all pairs of short histories
	l2 := w.Pick(2, 3)
	var seqs2 []string
	var gen func(s string)
	gen = func(s string) {
		if len(s) > 0 {
			seqs2 = append(seqs2, s)
		}
		if len(s) == l2 {
			return
		}
		for _, op := range "NSC" {
			gen(s + string(op))
		}
	}
	gen("")
	pairsQ := [][2]int{{2, 2}, {2, 3}, {5, 2}, {7, 2}, {3, 6}}
	for _, pq := range pairsQ {
		for _, ha := range seqs2 {
			for _, hb := range seqs2 {
				var merges []string
				var mg func(a, b int, cur string)
				mg = func(a, b int, cur string) {
					if a == len(ha) && b == len(hb) {
						merges = append(merges, cur)
						return
					}
					if a < len(ha) {
						mg(a+1, b, cur+"a")
					}
					if b < len(hb) {
						mg(a, b+1, cur+"b")
					}
				}
				mg(0, 0, "")
				for _, m := range merges {
					if !w.Mine() {
						continue
					}
					if w.Expired() {
						return
					}
					c := &c12Case{Query: pq[0], Query2: pq[1], History: ha, History2: hb, Merge: m, Bound: bound}
					finals := c12Explore(w, c, w.Pick(1, 2))
					w.States(1)
					w.Traces(1)
					w.Nontrivial(fmt.Sprintf("%v %s %s %s", pq, ha, hb, m))
					w.Outcome(fmt.Sprintf("two:%d", len(finals)))
				}
			}
		}
	}
}

// c12ModelKey summarises the sequential model's state after a history.
func c12ModelKey(qi int, hist string) string {
	c12Discover(&c12Queries[qi])
	m := &c12Model{q: &c12Queries[qi]}
	for i := 0; i < len(hist); i++ {
		switch hist[i] {
		case 'N':
			if !m.closed && !m.ended {
				if m.q.Inf || m.pos < len(m.q.vals) {
					m.pos++
					m.curValid = true
					if m.q.Inf && m.pos > 2 {
						m.pos = 2 // an infinite generator has no further distinguishable positions
					}
				} else {
					m.ended = true
					m.curValid = false
				}
			} else {
				m.curValid = false
			}
		case 'C':
			m.closed = true
			m.curValid = false
		}
	}
	return fmt.Sprintf("pos=%d closed=%v ended=%v cur=%v", m.pos, m.closed, m.ended, m.curValid)
}

func c12Replay(b []byte) (string, string, bool) {
	var c c12Case
	if err := json.Unmarshal(b, &c); err != nil {
		return "", err.Error(), false
	}
	problems, r := c12Run(&c, c.Schedule)
	if r.Diverged != "" {
		return "", "schedule diverged: " + r.Diverged, false
	}
	if len(problems) == 0 {
		return "every call returns; results as the model", "as expected", true
	}
	return "every call returns; results as the sequential iterator model", strings.Join(problems, "; "), false
}

func init() {
	h.Register(&h.Check{
		ID: "C12",
		Rule: "(a) every call history over {Next, Scan, Err, Close} of length <= L on one Solutions, for 11 query kinds (0..3 answers, an error after 0, 1, 2 answers, an infinite generator, three queries without any variable whose answers carry the empty environment; two of them write a character before each answer) - executed on the REAL interpreter.go/solutions.go whose channel operations and go statement are mechanically routed through a scheduler shim, under every interleaving of the consumer and the search goroutine with at most P preemptions; histories are walked breadth-first and keyed by (sequential model state, final scheduler-visible state of the goroutine over all interleavings, last call); (c) generator family: each of 45 nondeterministic control constructs, built-in and library predicates (between, member, nth0/nth1 in both modes, append, select, length, clause, retract, user clauses, current_op, sub_atom, atom_concat, current_prolog_flag, stream_property, call_nth, bagof, setof, catch, call/N, if-then-else, DCG phrase, left recursion, an error after two answers, a partial list, ...) followed by two goals with a visible side effect (a database update, which the engine performs at once, and output, which it defers; both orders), under 10 (thorough: 15) histories that close before the first, after the first, second, third and last answer or never, all interleavings; the answers are discovered by one sequential run to exhaustion, and exactly one side effect of each kind per answer handed out is required; (d) 20 pairs of queries that run the SAME nondeterministic built-in on different data (sub_atom, atom_concat, between, member, nth0/nth1, select, append, bagof, clause, current_op, ...) in two Solutions of one interpreter, all 20 interleaved orders of three Next+Scan each: each iterator sees the answers it sees alone; (b) two Solutions of one interpreter: all pairs of histories of length <= L2 over {Next, Scan, Close}, all their merges, all interleavings of the three threads. Non-trivial/distinct = distinct state key / case.",
		Explanation: "state = (iterator model state, scheduler-visible state of channels and goroutine); transition = one call on the real Solutions object executed under the controlled scheduler; 'the call blocks' is the crisp verdict 'no enabled thread while the consumer is inside a call'; a goroutine leak is 'a search goroutine still parked at the end of a history that closed or exhausted its iterator'; 'no goal runs after Close' is checked on the output written by the query",
		Assumptions: []string{"the rewriter (cmd/vrewrite) is purely syntactic and fails loudly on constructs it does not know; the shim models Go channel semantics (buffered/unbuffered, close) as in DESIGN.md Appendix B", "Scan before the first Next, after a false Next and after Close is unspecified: only termination is checked", "unsynchronised accesses are not visible to a cooperative scheduler: a separate free-running -race pass runs the same histories (C12 race pass)"},
		Work:        c12Work,
		Replay:      c12Replay,
		Sched:       true,
		QuickDeadline: 150 * time.Second, ThoroughDeadline: 25 * time.Minute,
	})
}
