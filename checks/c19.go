package checks

import (
	"bytes"
	"encoding/json"
	"fmt"
	"io"
	"os"
	"path/filepath"
	"reflect"
	"strings"
	"time"
	"unicode/utf8"

	"github.com/ichiban/prolog"
	"github.com/ichiban/prolog/engine"

	"verif/h"
	"verif/ref"
)

// C19 — a stream is one forward cursor: peeks do not consume, nothing skipped/repeated.

type c19Case struct {
	Source  string   `json:"source"`
	Kind    string   `json:"kind"`   // file, strings-reader, one-byte-reader, eof-with-data-reader
	Binary  bool     `json:"binary"` // binary stream (files only)
	Eof     string   `json:"eof_action"`
	Ops     []string `json:"ops"`
	Conj    bool     `json:"conjunction"` // all operations as goals of ONE conjunction
	Output  bool     `json:"output,omitempty"`
	OutFile bool     `json:"out_file,omitempty"`
}

var c19LongPrefix = "'" + strings.Repeat("x", 4088) + "'." // 4091 bytes: 'b' of " abcd" below is byte 4095

var c19Sources = []string{
	"", "a", "ab", "é日", "a.", "a. ", "a. b.", "f(X). %c\n g.", "a.b", "0'a. x", "'q w'. ", "foo.\n", "a. b", "ab\n", "p(1).\nq(2). r",
	"foo./* c */ bar. b.\n", "a./**/b. c",
}

var c19ByteSources = []string{"", "\x00", "ab", "\xff\xfe", "abc"}

type oneByteReader struct{ r io.Reader }

func (o oneByteReader) Read(p []byte) (int, error) {
	if len(p) == 0 {
		return 0, nil
	}
	return o.r.Read(p[:1])
}

type eofWithDataReader struct {
	data []byte
	off  int
}

func (e *eofWithDataReader) Read(p []byte) (int, error) {
	if e.off >= len(e.data) {
		return 0, io.EOF
	}
	n := copy(p, e.data[e.off:])
	e.off += n
	if e.off >= len(e.data) {
		return n, io.EOF
	}
	return n, nil
}

// growingReader is a host source that can receive more input after it reported io.EOF (a terminal,
// a pipe, a buffer the host fills again): the environment event "feed".
type growingReader struct {
	buf []byte
	off int
}

func (g *growingReader) Read(p []byte) (int, error) {
	if g.off >= len(g.buf) {
		return 0, io.EOF
	}
	n := copy(p, g.buf[g.off:])
	g.off += n
	return n, nil
}

var c19Feeds = map[string]string{"feed1": "bc", "feed2": "d. é"}

// ---- reference cursor model ---------------------------------------------------------------------

type c19Model struct {
	data   []byte
	pos    int
	past   bool // end of file has been delivered
	binary bool
	eof    string
	dead   bool // after an error whose effect on the cursor is unspecified: nothing more is asserted
	stale  bool // the source grew and the stream has not looked at it yet: its end-of-stream state is not asserted
	// lenient: an end char directly followed by a bracketed comment counts as an end (see c19Run)
	lenient bool
}

var c19ReadSkipsLayout = -1 // don't-care resolved by observing the implementation once

func c19ReadPolicy() int {
	if c19ReadSkipsLayout >= 0 {
		return c19ReadSkipsLayout
	}
	p := prolog.New(strings.NewReader("a. xy"), io.Discard)
	c19ReadSkipsLayout = 0
	sols, err := p.Query("read(_).")
	if err == nil {
		for sols.Next() {
		}
		sols.Close()
		s2, err := p.Query("get_char(C).")
		if err == nil {
			if s2.Next() {
				var d struct{ C string }
				if s2.Scan(&d) == nil && d.C == "x" {
					c19ReadSkipsLayout = 1
				}
			}
			s2.Close()
		}
	}
	return c19ReadSkipsLayout
}

// expectation for one operation: a set of admissible observations ("" = any), or an error
type c19Exp struct {
	vals   []string // admissible values of the observed variable; nil = not asserted
	errOK  bool     // an error is admissible
	errReq bool     // an error is required
	fails  bool     // the goal must fail (used for the negated peeks: they succeed through \+)
}

func (m *c19Model) endToken(from int) int {
	// offset of the end '.' of the next term, -1 if none; quotes and 0'c are skipped
	i := from
	inq := byte(0)
	for i < len(m.data) {
		c := m.data[i]
		switch {
		case inq != 0:
			if c == inq {
				inq = 0
			}
		case c == '\'' || c == '"':
			if i > 0 && m.data[i-1] == '0' && c == '\'' && i+1 < len(m.data) {
				i += 2 // 0'c
				continue
			}
			inq = c
		case c == '%':
			for i < len(m.data) && m.data[i] != '\n' {
				i++
			}
		case c == '.':
			if i+1 >= len(m.data) || strings.ContainsRune(" \n\t%", rune(m.data[i+1])) || (m.lenient && strings.HasPrefix(string(m.data[i+1:]), "/*")) {
				// a '.' that is part of a graphic token (e.g. "=..") does not occur in the sources
				return i
			}
		}
		i++
	}
	return -1
}

func (m *c19Model) step(op string) c19Exp {
	if m.dead {
		return c19Exp{errOK: true}
	}
	if strings.HasSuffix(op, "_eof") {
		// the end-of-stream value as an INSTANTIATED argument: an in-character is a character or end_of_file,
		// an in-byte a byte or -1; the call succeeds exactly at the end (a get consumes what it read either way)
		isByte := strings.Contains(op, "byte")
		if isByte != m.binary {
			return c19Exp{errReq: true}
		}
		if m.past && m.eof == "error" {
			return c19Exp{errReq: true}
		}
		if m.stale {
			m.stale = false
			if m.pos < len(m.data) {
				m.past = false
			}
		}
		peek := strings.HasPrefix(op, "peek")
		if m.pos >= len(m.data) {
			if !peek {
				m.past = true
			}
			return c19Exp{vals: []string{"yes"}}
		}
		if !peek {
			if isByte {
				m.pos++
			} else {
				_, size := utf8.DecodeRune(m.data[m.pos:])
				m.pos += size
			}
		}
		return c19Exp{vals: []string{"no"}}
	}
	textOp := strings.HasPrefix(op, "get_char") || strings.HasPrefix(op, "peek_char") || strings.HasPrefix(op, "get_code") || strings.HasPrefix(op, "peek_code") || strings.HasPrefix(op, "read") || strings.HasPrefix(op, "neg_peek_char")
	byteOp := strings.Contains(op, "byte")
	if (textOp && m.binary) || (byteOp && !m.binary) {
		return c19Exp{errReq: true}
	}
	if seg, ok := c19Feeds[op]; ok {
		m.data = append(append([]byte{}, m.data...), seg...)
		m.stale = true
		return c19Exp{}
	}
	atEnd := m.pos >= len(m.data)
	if m.stale {
		switch op {
		case "at_end", "end_of_stream":
			return c19Exp{}
		case "position":
		default:
			// the next input operation looks at the source: an eof_action(reset) stream continues with the new input
			m.stale = false
			if !atEnd {
				m.past = false
			}
		}
	}
	pastAction := func() (c19Exp, bool) {
		if m.past {
			switch m.eof {
			case "error":
				return c19Exp{errReq: true}, true
			}
		}
		return c19Exp{}, false
	}
	switch op {
	case "get_char", "get_code", "peek_char", "peek_code", "neg_peek_char":
		if e, ok := pastAction(); ok {
			return e
		}
		peek := strings.Contains(op, "peek")
		code := strings.HasSuffix(op, "code")
		if atEnd {
			if !peek {
				m.past = true
			}
			if op == "neg_peek_char" {
				return c19Exp{}
			}
			if code {
				return c19Exp{vals: []string{"-1"}}
			}
			return c19Exp{vals: []string{"'end_of_file'"}}
		}
		r, size := utf8.DecodeRune(m.data[m.pos:])
		if !peek {
			m.pos += size
		}
		if op == "neg_peek_char" {
			return c19Exp{}
		}
		if code {
			return c19Exp{vals: []string{fmt.Sprint(int(r))}}
		}
		return c19Exp{vals: []string{ref.QuoteAtomAlways(string(r))}}
	case "get_byte", "peek_byte", "neg_peek_byte":
		if e, ok := pastAction(); ok {
			return e
		}
		peek := strings.Contains(op, "peek")
		if atEnd {
			if !peek {
				m.past = true
			}
			if op == "neg_peek_byte" {
				return c19Exp{}
			}
			return c19Exp{vals: []string{"-1"}}
		}
		b := m.data[m.pos]
		if !peek {
			m.pos++
		}
		if op == "neg_peek_byte" {
			return c19Exp{}
		}
		return c19Exp{vals: []string{fmt.Sprint(int(b))}}
	case "read":
		if e, ok := pastAction(); ok {
			return e
		}
		end := m.endToken(m.pos)
		rest := string(m.data[m.pos:])
		if end < 0 {
			// only layout and comments left => end_of_file; otherwise a syntax error
			stripped := rest
			for {
				stripped = strings.TrimLeft(stripped, " \n\t")
				if strings.HasPrefix(stripped, "%") {
					if i := strings.Index(stripped, "\n"); i >= 0 {
						stripped = stripped[i+1:]
						continue
					}
					stripped = ""
				}
				break
			}
			if stripped == "" {
				m.pos = len(m.data)
				m.past = true
				return c19Exp{vals: []string{"'end_of_file'"}}
			}
			// text that ends inside a term: ISO asks for a syntax error; this implementation answers
			// end_of_file. The property does not say, so both are admitted; nothing is asserted afterwards.
			m.dead = true
			return c19Exp{errOK: true, vals: []string{"'end_of_file'"}}
		}
		text := string(m.data[m.pos:end])
		var want string
		func() {
			defer func() {
				if recover() != nil {
					want = "$syntax"
				}
			}()
			ts, err := ref.ReadAll(text + " .")
			if err != nil || len(ts) != 1 {
				want = "$syntax"
				return
			}
			want = ref.Canon(ts[0], ref.NewNamer())
		}()
		m.pos = end + 1
		if c19ReadPolicy() == 1 && m.pos < len(m.data) && strings.ContainsRune(" \n\t", rune(m.data[m.pos])) {
			m.pos++
		}
		if want == "$syntax" {
			m.dead = true
			return c19Exp{errOK: true}
		}
		return c19Exp{vals: []string{want}}
	case "at_end":
		switch {
		case !atEnd:
			return c19Exp{fails: true}
		case m.past && m.eof != "reset":
			return c19Exp{vals: []string{"true"}}
		}
		return c19Exp{} // at the very end without having delivered end of file: either
	case "position":
		return c19Exp{vals: []string{fmt.Sprint(m.pos)}}
	case "end_of_stream":
		switch {
		case !atEnd:
			return c19Exp{vals: []string{"'not'"}}
		case m.past && m.eof != "reset":
			return c19Exp{vals: []string{"'past'"}}
		case m.past:
			return c19Exp{} // eof_action(reset): the stream may already have been reset
		}
		return c19Exp{vals: []string{"'not'", "'at'"}}
	}
	panic("unknown op " + op)
}

func c19Goal(op string, i int) (goal string, v string) {
	v = fmt.Sprintf("V%d", i)
	switch op {
	case "get_char", "peek_char", "get_code", "peek_code", "get_byte", "peek_byte":
		return fmt.Sprintf("%s(in, %s)", op, v), v
	case "feed1", "feed2":
		return op, ""
	case "get_char_eof":
		return fmt.Sprintf("(get_char(in, end_of_file) -> %s = yes ; %s = no)", v, v), v
	case "peek_char_eof":
		return fmt.Sprintf("(peek_char(in, end_of_file) -> %s = yes ; %s = no)", v, v), v
	case "get_byte_eof":
		return fmt.Sprintf("(get_byte(in, -1) -> %s = yes ; %s = no)", v, v), v
	case "peek_byte_eof":
		return fmt.Sprintf("(peek_byte(in, -1) -> %s = yes ; %s = no)", v, v), v
	case "neg_peek_char":
		return "\\+ peek_char(in, '~')", ""
	case "neg_peek_byte":
		return "\\+ peek_byte(in, 126)", ""
	case "read":
		return fmt.Sprintf("read_term(in, %s, [])", v), v
	case "at_end":
		return fmt.Sprintf("stream_property(S%d, alias(in)), (at_end_of_stream(S%d) -> %s = true ; %s = false)", i, i, v, v), v
	case "position":
		return fmt.Sprintf("stream_property(S%d, alias(in)), stream_property(S%d, position(%s))", i, i, v), v
	case "end_of_stream":
		return fmt.Sprintf("stream_property(S%d, alias(in)), stream_property(S%d, end_of_stream(%s))", i, i, v), v
	}
	panic(op)
}

func c19Run(c *c19Case) (exp, act, sig string, ok bool) {
	if c.Output {
		return c19RunOutput(c)
	}
	dir, err := os.MkdirTemp("", "c19")
	if err != nil {
		return "", err.Error(), "harness", false
	}
	defer os.RemoveAll(dir)
	data := []byte(c.Source)
	var p *prolog.Interpreter
	var gr *growingReader
	out := &bytes.Buffer{}
	alias := "in"
	switch c.Kind {
	case "file":
		path := filepath.Join(dir, "src.txt")
		os.WriteFile(path, data, 0o644)
		p = prolog.New(strings.NewReader(""), out)
		typ := "text"
		if c.Binary {
			typ = "binary"
		}
		if e := p.QuerySolution(fmt.Sprintf("open('%s', read, _, [alias(in), type(%s), eof_action(%s)]).", path, typ, c.Eof)).Err(); e != nil {
			return "open/4 succeeds", e.Error(), "open failed", false
		}
	default:
		var r io.Reader = strings.NewReader(c.Source)
		switch c.Kind {
		case "one-byte-reader":
			r = oneByteReader{strings.NewReader(c.Source)}
		case "eof-with-data-reader":
			r = &eofWithDataReader{data: data}
		case "growing-reader":
			gr = &growingReader{buf: append([]byte{}, data...)}
			r = gr
		case "offset-strings-reader":
			// a seekable host reader handed over after the host consumed a header from it
			sr := strings.NewReader("HEADER\n" + c.Source)
			sr.Seek(7, io.SeekStart)
			r = sr
		case "offset-file":
			path := filepath.Join(dir, "host.txt")
			os.WriteFile(path, append([]byte("HEADER-OF-THE-HOST\n"), data...), 0o644)
			f, ferr := os.Open(path)
			if ferr != nil {
				return "", ferr.Error(), "harness", false
			}
			defer f.Close()
			f.Seek(19, io.SeekStart)
			r = f
		}
		p = prolog.New(r, out)
		alias = "user_input"
		if gr != nil {
			for name, seg := range c19Feeds {
				seg := seg
				p.Register0(engine.NewAtom(name), func(_ *engine.VM, k engine.Cont, env *engine.Env) *engine.Promise {
					gr.buf = append(gr.buf, seg...)
					return k(env)
				})
			}
		}
	}
	m := &c19Model{data: data, binary: c.Binary, eof: c.Eof}
	type obs struct {
		op, v string
		e     c19Exp
	}
	var goals []string
	var plan []obs
	for i, op := range c.Ops {
		g, v := c19Goal(op, i)
		g = strings.ReplaceAll(g, "(in", "("+alias)
		goals = append(goals, g)
		plan = append(plan, obs{op, v, m.step(op)})
	}
	// An end char directly followed by a bracketed comment ("foo./* c */") is no end by the letter of the standard (the
	// read raises a syntax error, after which nothing is asserted). A reader that takes it for one is admitted, too,
	// but then the cursor stands right after the end char: a second plan, followed from the first read that delivers
	// a term where the strict plan expects the error.
	var plan2 []obs
	diverge := -1
	if strings.Contains(string(data), "./*") && !c.Conj {
		m2 := &c19Model{data: data, binary: c.Binary, eof: c.Eof, lenient: true}
		for i, op := range c.Ops {
			_, v := c19Goal(op, i)
			plan2 = append(plan2, obs{op, v, m2.step(op)})
			if diverge < 0 && !reflect.DeepEqual(plan2[i].e, plan[i].e) {
				diverge = i
			}
		}
	}
	check := func(i int, status string, val string, errText string) (string, string, string, bool) {
		o := plan[i]
		where := fmt.Sprintf("op %d (%s) of %v", i+1, o.op, c.Ops)
		switch {
		case o.e.errReq:
			if status != "error" {
				return where + ": an error", status + " " + val, "stream: " + o.op + ": error expected", false
			}
		case status == "error":
			if !o.e.errOK {
				return where + fmt.Sprintf(": %v", o.e.vals), "error " + errText, "stream: " + o.op + ": unexpected error", false
			}
		case o.e.fails:
			if val != "'false'" && val != "false" {
				return where + ": at_end_of_stream fails while input remains", val, "stream: at_end_of_stream succeeds while input remains", false
			}
		case o.e.vals != nil:
			okv := false
			for _, w := range o.e.vals {
				if w == val || "'"+w+"'" == val {
					okv = true
				}
			}
			if !okv {
				return where + fmt.Sprintf(": %v", o.e.vals), val, "stream: " + o.op + ": wrong value", false
			}
		}
		return "", "", "", true
	}
	im := &h.Impl{P: p, Out: out, Timeout: 10 * time.Second}
	if c.Conj {
		var names []string
		for _, o := range plan {
			if o.v != "" {
				names = append(names, o.v)
			}
		}
		o, ans := im.QueryTerms(strings.Join(goals, ", ")+".", names, 2)
		// an expected error ends the conjunction: everything before it cannot be observed, so such
		// sequences are only run as separate queries
		for _, pl := range plan {
			if pl.e.errReq || pl.e.errOK {
				return "", "", "", true
			}
		}
		if o.Status != "exhausted" || len(ans) != 1 {
			// which goal failed cannot be told apart: report the whole conjunction
			return fmt.Sprintf("the conjunction %v succeeds once", c.Ops), o.String(), "stream: conjunction does not succeed once", false
		}
		k := 0
		for i, pl := range plan {
			if pl.v == "" {
				continue
			}
			val := ref.Canon(ans[0][k], ref.NewNamer())
			k++
			if e, a, s, okk := check(i, "ok", val, ""); !okk {
				return e, a, s + " (in a conjunction)", false
			}
		}
		return "", "", "", true
	}
	for i, g := range goals {
		var names []string
		if plan[i].v != "" {
			names = []string{plan[i].v}
		}
		o, ans := im.QueryTerms(g+".", names, 2)
		status, val := "ok", ""
		switch {
		case o.Status == "error":
			status = "error"
		case o.Status == "exhausted" && len(ans) == 1:
			if len(names) == 1 {
				val = ref.Canon(ans[0][0], ref.NewNamer())
			}
		default:
			return fmt.Sprintf("op %d (%s) succeeds once", i+1, plan[i].op), o.String(), "stream: " + plan[i].op + " does not succeed once", false
		}
		if i == diverge && status == "ok" {
			plan = plan2 // the lenient reading: everything from here on follows from it
			m.dead = false
		}
		if e, a, s, okk := check(i, status, val, o.Err); !okk {
			return e, a, s, false
		}
		if m.dead && status == "error" {
			break
		}
	}
	return "", "", "", true
}

var c19OutOps = []string{"put_char(x)", "nl", "write(foo)", "write('é日')", "flush_output", "put_char(' ')", "writeq('a b')", "print_nothing"}

func c19OutText(op string) string {
	switch op {
	case "put_char(x)":
		return "x"
	case "nl":
		return "\n"
	case "write(foo)":
		return "foo"
	case "write('é日')":
		return "é日"
	case "put_char(' ')":
		return " "
	case "writeq('a b')":
		return "'a b'"
	}
	return ""
}

func c19RunOutput(c *c19Case) (exp, act, sig string, ok bool) {
	dir, _ := os.MkdirTemp("", "c19o")
	defer os.RemoveAll(dir)
	out := &bytes.Buffer{}
	p := prolog.New(strings.NewReader(""), out)
	want := ""
	var goals []string
	for _, op := range c.Ops {
		want += c19OutText(op)
		g := op
		if op == "print_nothing" {
			g = "true"
		}
		if c.OutFile {
			switch {
			case op == "nl":
				g = "nl(o)"
			case op == "flush_output":
				g = "flush_output(o)"
			case op == "print_nothing":
			default:
				g = strings.Replace(g, "(", "(o, ", 1)
			}
		}
		goals = append(goals, g)
	}
	path := filepath.Join(dir, "out.txt")
	if c.OutFile {
		if e := p.QuerySolution(fmt.Sprintf("open('%s', write, _, [alias(o)]).", path)).Err(); e != nil {
			return "open/4 for writing succeeds", e.Error(), "output: open failed", false
		}
	}
	run := func(q string) error { return p.QuerySolution(q).Err() }
	if c.Conj {
		if e := run(strings.Join(goals, ", ") + "."); e != nil {
			return "the output goals succeed", e.Error(), "output: goals fail", false
		}
	} else {
		for _, g := range goals {
			if e := run(g + "."); e != nil {
				return "the output goals succeed", g + ": " + e.Error(), "output: goals fail", false
			}
		}
	}
	got := out.String()
	if c.OutFile {
		if e := run("close(o)."); e != nil {
			return "close succeeds", e.Error(), "output: close fails", false
		}
		b, _ := os.ReadFile(path)
		got = string(b)
	}
	if got != want {
		return fmt.Sprintf("%q", want), fmt.Sprintf("%q", got), "output: the sink does not hold exactly the output in program order", false
	}
	return "", "", "", true
}

func c19Work(w *h.W) {
	textOps := []string{"get_char", "peek_char", "read", "at_end", "position", "end_of_stream", "neg_peek_char", "peek_char_eof"}
	byteOps := []string{"get_byte", "peek_byte", "at_end", "position", "end_of_stream", "neg_peek_byte", "get_char", "peek_byte_eof", "read"}
	if w.Thorough() {
		textOps = append(textOps, "get_char_eof", "get_code", "peek_code", "get_byte")
		byteOps = append(byteOps, "get_byte_eof")
	}
	maxLen := w.Pick(3, 4)
	emit := func(c *c19Case) {
		w.Guard(c)
		exp, act, sig, ok := c19Run(c)
		w.Unguard()
		w.Eval(1)
		w.States(1)
		w.Transitions(len(c.Ops))
		w.Traces(1)
		w.Nontrivial(fmt.Sprint(*c))
		w.Outcome(fmt.Sprintf("%s:%v:%v", c.Kind, c.Binary, c.Conj))
		if !ok {
			w.Violation(sig, c, exp, act, len(c.Ops)+len(c.Source))
		}
	}
	type cfg struct {
		kind, eof string
		binary    bool
	}
	var cfgs []cfg
	for _, e := range []string{"error", "eof_code", "reset"} {
		cfgs = append(cfgs, cfg{"file", e, false})
	}
	cfgs = append(cfgs, cfg{"strings-reader", "reset", false}, cfg{"one-byte-reader", "reset", false}, cfg{"eof-with-data-reader", "reset", false},
		cfg{"offset-strings-reader", "reset", false}, cfg{"offset-file", "reset", false})
	sources := append([]string{}, c19Sources...)
	sources = append(sources, c19LongPrefix+" abcd", c19LongPrefix+" aé日b", c19LongPrefix+"\n%"+"\nab.")
	for _, src := range sources {
		long := len(src) > 4000
		for _, cf := range cfgs {
			for l := 1; l <= maxLen; l++ {
				seqs(l, len(textOps), func(idx []int) bool {
					for _, conj := range []bool{false, true} {
						if !w.Mine() {
							continue
						}
						if w.Expired() {
							return false
						}
						ops := make([]string, 0, l+1)
						if long {
							ops = append(ops, "read") // skip the long first term: the following operations straddle byte 4096
						}
						for _, i := range idx {
							ops = append(ops, textOps[i])
						}
						emit(&c19Case{Source: src, Kind: cf.kind, Eof: cf.eof, Ops: ops, Conj: conj})
					}
					return true
				})
			}
		}
	}
	// a host source that grows after it reported end of file (eof_action(reset), the default for host readers)
	growOps := append(append([]string{}, textOps[:7]...), "feed1", "feed2")
	for _, src := range []string{"", "a", "a. "} {
		for l := 1; l <= w.Pick(4, 5); l++ {
			seqs(l, len(growOps), func(idx []int) bool {
				hasFeed := false
				for _, i := range idx {
					hasFeed = hasFeed || i >= 7
				}
				if !hasFeed {
					return true // without a feed this is the strings-reader family above
				}
				for _, conj := range []bool{false, true} {
					if !w.Mine() {
						continue
					}
					if w.Expired() {
						return false
					}
					ops := make([]string, l)
					for k, i := range idx {
						ops[k] = growOps[i]
					}
					emit(&c19Case{Source: src, Kind: "growing-reader", Eof: "reset", Ops: ops, Conj: conj})
				}
				return true
			})
		}
	}
	for _, src := range c19ByteSources {
		for _, e := range []string{"error", "eof_code", "reset"} {
			for l := 1; l <= maxLen; l++ {
				seqs(l, len(byteOps), func(idx []int) bool {
					for _, conj := range []bool{false, true} {
						if !w.Mine() {
							continue
						}
						ops := make([]string, l)
						for k, i := range idx {
							ops[k] = byteOps[i]
						}
						emit(&c19Case{Source: src, Kind: "file", Binary: true, Eof: e, Ops: ops, Conj: conj})
					}
					return true
				})
			}
		}
	}
	// output: all sequences of <= 4 output operations, to the host writer and to a file
	for l := 1; l <= w.Pick(3, 4); l++ {
		seqs(l, len(c19OutOps), func(idx []int) bool {
			for variant := 0; variant < 4; variant++ {
				if !w.Mine() {
					continue
				}
				ops := make([]string, l)
				for k, i := range idx {
					ops[k] = c19OutOps[i]
				}
				emit(&c19Case{Output: true, Ops: ops, Conj: variant%2 == 1, OutFile: variant >= 2, Kind: "output"})
			}
			return true
		})
	}
}

func c19Replay(b []byte) (string, string, bool) {
	var c c19Case
	if err := json.Unmarshal(b, &c); err != nil {
		return "", err.Error(), false
	}
	exp, act, _, ok := c19Run(&c)
	return exp, act, ok
}

func init() {
	h.Register(&h.Check{
		ID:            "C19",
		Rule:          "all sequences of <= L input operations out of {get_char, peek_char, read_term, at_end_of_stream, position, end_of_stream, a failing peek with an instantiated argument, get/peek with the end-of-stream value (end_of_file, -1) as instantiated argument} (thorough: plus get_code, peek_code, a byte operation on a text stream) over 17 short source texts (ASCII and multi-byte, with and without trailing layout, comments, a bracketed comment glued to an end char, 0'c, quoted atoms, text ending inside a term) and 3 long ones whose operations straddle byte 4096 of the buffer, x stream kinds {file opened by open/4 with each eof_action, host strings.Reader, a one-byte-at-a-time reader, a reader that returns data together with io.EOF, a seekable strings.Reader and an *os.File handed over after the host consumed a header from them}; a host source that GROWS after it reported end of file (environment events feed1/feed2 interleaved with the operations, all sequences of <= 4 (5) over 9 symbols on 3 initial texts); the same for binary files over 5 byte sources with {get_byte, peek_byte, ..., and the text operations get_char and read_term, which must be refused without any effect}; every sequence issued BOTH as separate queries and as consecutive goals of one conjunction; plus all sequences of <= L output operations to the host writer and to a file. Distinct = case.",
		Explanation:   "state = (byte offset, end-of-file delivered) of the reference cursor; transition = one input predicate on the real stream; every operation's observed value is compared with the reference cursor model (peeks leave the cursor, reads deliver consecutive characters/bytes/terms, end_of_file then the eof_action, position = bytes consumed, end_of_stream never at/past while input remains and past once end_of_file was delivered)",
		Assumptions:   []string{"whether read_term/3 consumes the layout character after the end token is implementation defined and resolved by observing the implementation once", "after a syntax error the cursor is unspecified: the rest of that sequence is not asserted"},
		Work:          c19Work,
		Replay:        c19Replay,
		QuickDeadline: 170 * time.Second, ThoroughDeadline: 30 * time.Minute,
	})
}
