package checks

import (
	"encoding/json"
	"fmt"
	"math"
	"strings"
	"time"

	"verif/h"
	"verif/ref"
)

// C07 — arithmetic is exact or raises an evaluation error; comparisons are numeric.

type c07Case struct {
	Kind string     `json:"kind"` // "expr" or "cmp"
	Op   string     `json:"op,omitempty"`
	E    *ref.JTerm `json:"e,omitempty"` // expression (expr) ...
	// Shared: a sub-expression that the goal binds to a variable first ('D = Shared, X is E'); the atom
	// '$d' in E, L, R marks its occurrences (one compound object reached several times in one evaluation)
	Shared *ref.JTerm `json:"shared,omitempty"`
	L      *ref.JTerm `json:"l,omitempty"` // ... or the two sides (cmp)
	R    *ref.JTerm `json:"r,omitempty"`
	Goal string     `json:"goal"`
	// Before: a goal that runs first in the same query - an evaluation that ends in an error and is caught. What it
	// leaves behind must not reach the evaluation that follows.
	Before string `json:"before,omitempty"`
}

func c07Ints(thorough bool) []int64 {
	seen := map[int64]bool{}
	var out []int64
	add := func(v int64) {
		if !seen[v] {
			seen[v] = true
			out = append(out, v)
		}
	}
	base := []int64{0, 1, 2, 3, 7, 10, 63, 64,
		1<<31 - 1, 1 << 31, 1<<31 + 1, 1<<32 - 1, 1 << 32, 1<<32 + 1,
		3037000499, 3037000500,
		1<<53 - 2, 1<<53 - 1, 1 << 53, 1<<53 + 1, 1<<53 + 2,
		1<<62 - 1, 1 << 62, 1<<62 + 1,
		math.MaxInt64 - 1, math.MaxInt64}
	if thorough {
		base = append(base, 4, 5, 6, 8, 9, 11, 15, 16, 31, 32, 62, 100, 255, 256, 1<<16 - 1, 1 << 16, 1<<31 - 2, 1<<31 + 2,
			2147483648*3, 1<<52 - 1, 1 << 52, 1<<54 + 1, 1<<61 - 1, 1 << 61, 1<<61 + 1, 6074000999, 1<<62 + 3, math.MaxInt64 - 2, math.MaxInt64 / 3, math.MaxInt64/3 + 1)
	}
	for _, v := range base {
		add(v)
		add(-v)
	}
	// every power of two and its neighbours (table sizes, bit masks, word boundaries of any cache or fast path)
	for k := 1; k <= 62; k++ {
		if !thorough && k > 20 && k%4 != 0 && k != 31 && k != 33 && k != 53 && k != 62 {
			continue
		}
		p := int64(1) << uint(k)
		for _, v := range []int64{p - 1, p, p + 1} {
			add(v)
			add(-v)
		}
	}
	add(math.MinInt64)
	add(math.MinInt64 + 1)
	return out
}

func c07Floats(thorough bool) []float64 {
	var out []float64
	base := []float64{0, 5e-324, 2.2250738585072014e-308, 1e-300, 0.1, 0.5, 1, 1.5, 2, 2.5, 3, 3.5,
		1 << 53, 1<<53 + 2, 1<<53 - 1, 9223372036854775808.0, 9223372036854775808.0 - 1024, 18446744073709551616.0,
		1e154, 1.3407807929942597e154, 1e300, math.MaxFloat64, math.MaxFloat64 / 2,
		// neighbours of the overflow threshold: max's predecessor, half an ulp of max (2^970), one ulp, 1.5 ulp
		math.Nextafter(math.MaxFloat64, 0), math.Ldexp(1, 970), math.Ldexp(1, 971), math.Ldexp(3, 970), math.Nextafter(math.Ldexp(1, 970), 0),
		0.49999999999999994, 4503599627370497.0}
	if thorough {
		base = append(base, 1e-320, 4.9406564584124654e-324*3, 0.25, 0.75, 0.49999999999999994, 4.5, 7, 10, 1e10, 1e16, 1<<52 + 0.5, 1 << 62, 9223372036854775808.0 + 2048, 1e19, 1e-154, 1e155, 1e308, math.MaxFloat64 / 3, math.Pi)
	}
	for _, v := range base {
		out = append(out, v, -v)
	}
	return out
}

var c07Unary = []string{"-", "+", "abs", "sign", "\\", "float_integer_part", "float_fractional_part", "float", "floor", "truncate", "round", "ceiling"}
var c07Binary = []string{"+", "-", "*", "//", "/", "div", "mod", "rem", "min", "max", "^", "**", "/\\", "\\/", "xor", "<<", ">>"}
var c07Cmp = []string{"=:=", "=\\=", "<", "=<", ">", ">="}

func numKind(t ref.Term) string {
	switch t.(type) {
	case ref.Int:
		return "I"
	case ref.Flt:
		return "F"
	}
	return "?"
}

func c07Shape(t ref.Term) string { return c07ShapeD(t, 0) }

func c07ShapeD(t ref.Term, depth int) string {
	switch t := t.(type) {
	case ref.Int:
		return "I"
	case ref.Flt:
		return "F"
	case *ref.Cmp:
		if depth >= 3 {
			return "deep"
		}
		parts := make([]string, len(t.Args))
		for i, a := range t.Args {
			parts[i] = c07ShapeD(a, depth+1)
		}
		return t.F + "(" + strings.Join(parts, ",") + ")"
	}
	return "?"
}

func c07Subst(t ref.Term, by ref.Term) ref.Term {
	switch x := t.(type) {
	case ref.Atom:
		if x == "$d" {
			return by
		}
	case *ref.Cmp:
		args := make([]ref.Term, len(x.Args))
		for i, a := range x.Args {
			args[i] = c07Subst(a, by)
		}
		return &ref.Cmp{F: x.F, Args: args}
	}
	return t
}

func c07Goal(c *c07Case) (goal string, e, l, r ref.Term) {
	vars := map[string]*ref.Var{}
	pre := ""
	if c.Before != "" {
		pre = c.Before + ", "
	}
	inline := func(t ref.Term) (forGoal, forRef ref.Term) { return t, t }
	if c.Shared != nil {
		sh := ref.Dec(c.Shared, vars)
		pre += "D = (" + ref.Text(sh) + "), "
		inline = func(t ref.Term) (ref.Term, ref.Term) { return c07Subst(t, ref.NewVar("D")), c07Subst(t, sh) }
	}
	if c.Kind == "cmp" {
		lg, lr := inline(ref.Dec(c.L, vars))
		rg, rr := inline(ref.Dec(c.R, vars))
		return pre + ref.Text(ref.C(c.Op, lg, rg)), nil, lr, rr
	}
	eg, er := inline(ref.Dec(c.E, vars))
	return pre + "X is " + ref.Text(eg), er, nil, nil
}

func errKind(ball ref.Term) string {
	c, ok := ball.(*ref.Cmp)
	if !ok || c.F != "error" || len(c.Args) != 2 {
		return "ball:" + ref.Canon(ball, ref.NewNamer())
	}
	switch f := ref.Deref(c.Args[0]).(type) {
	case ref.Atom:
		return string(f)
	case *ref.Cmp:
		if f.F == "evaluation_error" && len(f.Args) == 1 {
			if a, ok := f.Args[0].(ref.Atom); ok {
				return string(a)
			}
		}
		if (f.F == "type_error" || f.F == "domain_error" || f.F == "existence_error" || f.F == "permission_error" || f.F == "representation_error") && len(f.Args) >= 1 {
			if a, ok := f.Args[0].(ref.Atom); ok {
				return f.F + "(" + string(a) + ")"
			}
		}
		return f.F
	}
	return "error(?)"
}

// c07Eval runs the case on im and judges it. ok=false => violation.
func c07Eval(im *h.Impl, c *c07Case) (expected, actual, sig, outcome string, ok bool) {
	goal, e, l, r := c07Goal(c)
	c.Goal = goal
	if c.Kind == "cmp" {
		el, er := ref.Expr(l), ref.Expr(r)
		o := im.Query(goal+".", nil, 2)
		if el.Unspecified || er.Unspecified || len(el.Vals) != 1 || len(er.Vals) != 1 || len(el.Errs)+len(er.Errs) > 0 {
			return "unspecified", o.String(), "", "unspec", true
		}
		want := ref.Compare(c.Op, el.Vals[0], er.Vals[0])
		expected = fmt.Sprintf("%v", want)
		got := o.Status == "exhausted" && len(o.Answers) == 1
		if o.Status != "exhausted" {
			actual = o.String()
			for _, side := range []ref.Term{l, r} {
				if _, isSub := side.(*ref.Cmp); isSub {
					if _, _, ssig, _, sok := c07Eval(im, &c07Case{Kind: "expr", E: ref.Enc(side)}); !sok {
						return expected, actual, ssig, "cmp-bad", false
					}
				}
			}
			return expected, actual, fmt.Sprintf("cmp %s (%s,%s) exp=%v act=%s", c.Op, c07Shape(l), c07Shape(r), want, o.Status), "cmp-bad", false
		}
		actual = fmt.Sprintf("%v", got)
		if got != want {
			rel := "lt"
			a, b := el.Vals[0], er.Vals[0]
			if ref.Compare("=:=", a, b) {
				rel = "eq"
			} else if ref.Compare(">", a, b) {
				rel = "gt"
			}
			return expected, actual, fmt.Sprintf("cmp %s (%s,%s) operands-%s exp=%v act=%v", c.Op, c07Shape(l), c07Shape(r), rel, want, got), "cmp-bad", false
		}
		return expected, actual, "", fmt.Sprintf("cmp %s %v", c.Op, want), true
	}
	res := ref.Expr(e)
	o, answers := im.QueryTerms(goal+".", []string{"X"}, 2)
	if res.Unspecified {
		if o.Panic != "" {
			return "unspecified (but no panic)", o.String(), "expr " + c07Shape(e) + " panic", "panic", false
		}
		return "unspecified", o.String(), "", "unspec", true
	}
	var exp []string
	for _, v := range res.Vals {
		exp = append(exp, ref.Text(v))
	}
	for _, k := range res.Errs {
		exp = append(exp, "error:"+k)
	}
	expected = strings.Join(exp, " | ")
	var actKind string
	switch {
	case o.Status == "exhausted" && len(answers) == 1:
		got := ref.Deref(answers[0][0])
		actual = ref.Text(got)
		actKind = "val"
		for _, v := range res.Vals {
			switch g := got.(type) {
			case ref.Int:
				if w, ok := v.(ref.Int); ok && w == g {
					return expected, actual, "", "val:" + numKind(got), true
				}
			case ref.Flt:
				if w, ok := v.(ref.Flt); ok {
					if math.Float64bits(float64(w)) == math.Float64bits(float64(g)) || (res.FloatNumeric && w == g) {
						return expected, actual, "", "val:" + numKind(got), true
					}
				}
			}
		}
		actKind = "wrongval:" + numKind(got)
	case o.Status == "error" && o.Ball != nil:
		k := errKind(o.Ball)
		actual = "error:" + k
		actKind = "err(" + k + ")"
		for _, want := range res.Errs {
			if want == k || want == "anyerror" {
				return expected, actual, "", "err:" + k, true
			}
		}
	default:
		actual = o.String()
		actKind = o.Status
	}
	expKind := "val"
	if len(res.Vals) == 0 {
		expKind = "err(" + strings.Join(res.Errs, "|") + ")"
	}
	// a tree whose sub-expression already violates on its own is attributed to that sub-expression
	if ec, isC := e.(*ref.Cmp); isC {
		for _, a := range ec.Args {
			if _, isSub := a.(*ref.Cmp); isSub {
				sub := &c07Case{Kind: "expr", E: ref.Enc(a)}
				if _, _, ssig, _, sok := c07Eval(im, sub); !sok {
					return expected, actual, ssig, "bad", false
				}
			}
		}
	}
	// the violating node: operands replaced by the reference values of the sub-expressions
	if ec, isC := e.(*ref.Cmp); isC {
		flat := &ref.Cmp{F: ec.F, Args: append([]ref.Term{}, ec.Args...)}
		for i, a := range flat.Args {
			if _, isSub := a.(*ref.Cmp); isSub {
				if sr := ref.Expr(a); !sr.Unspecified && len(sr.Vals) >= 1 {
					flat.Args[i] = sr.Vals[0]
				}
			}
		}
		e = flat
	}
	detail := ""
	if ec, isC := e.(*ref.Cmp); isC && len(res.Vals) > 0 && strings.HasPrefix(actKind, "err(float_overflow") {
		detail = " ieee-result=finite"
		if f, isF := res.Vals[0].(ref.Flt); isF && math.Abs(float64(f)) == math.MaxFloat64 {
			detail = " ieee-result=+-max"
		}
		_ = ec
	}
	if ec, isC := e.(*ref.Cmp); isC && ec.F == "^" && len(ec.Args) == 2 {
		if x, ok := ec.Args[0].(ref.Int); ok && (x == 1 || x == -1) {
			if y, ok := ec.Args[1].(ref.Int); ok && y < 0 {
				detail += " unit-base,negative-exponent"
				if y == math.MinInt64 {
					detail += "=min_integer"
				}
			}
		}
	}
	return expected, actual, fmt.Sprintf("expr %s exp=%s act=%s%s", c07Shape(e), expKind, actKind, detail), "bad", false
}

func c07Work(w *h.W) {
	im := h.NewImpl()
	im.Timeout = 20 * time.Second
	ints := c07Ints(w.Thorough())
	flts := c07Floats(w.Thorough())
	var nums []ref.Term
	for _, i := range ints {
		nums = append(nums, ref.Int(i))
	}
	for _, f := range flts {
		nums = append(nums, ref.Flt(f))
	}
	run := func(c *c07Case, size int) {
		w.Guard(c)
		exp, act, sig, outc, ok := c07Eval(im, c)
		w.Unguard()
		w.Eval(1)
		w.States(1)
		w.Transitions(1)
		w.Traces(1)
		w.Outcome(outc)
		if outc != "unspec" {
			w.Nontrivial(c.Goal)
		} else {
			w.Inconclusive(1)
		}
		w.Sample(c.Goal + "  =>  " + act)
		if !ok {
			w.Violation(sig, c, exp, act, size)
		}
	}
	// histories: an evaluation that fails with each kind of error, in each operand position and nested, caught, then
	// an ordinary evaluation or comparison in the same query
	{
		befores := []string{
			"catch(_ is 3 - _, _, true)", "catch(_ is _ - 3, _, true)", "catch(_ is -(_), _, true)", "catch(_ is 7 // _, _, true)", "catch(_ is 2 ** (1 - _), _, true)",
			"catch(_ is max(1, _) + 5, _, true)", "catch(1 =:= _ * 2, _, true)", "catch(_ * 2 < 1, _, true)", "catch(_ is foo + 1, _, true)", "catch(_ is 1 + a, _, true)",
			"catch(_ is 1 / 0, _, true)", "catch(_ is 7 mod 0, _, true)", "catch(_ is 9223372036854775807 + 1, _, true)", "catch(_ is 1.0e308 * 10, _, true)",
			"catch(_ is 1 << 1.0, _, true)", "catch(_ is \"ab\" + 1, _, true)", "catch(_ is 3 - (4 * (5 + _)), _, true)", "catch(\\+ _ is 3 - _, _, true)", "catch(_ is 3 - _, _, true), catch(_ is 4 * _, _, true)",
		}
		after := []ref.Term{ref.C("*", ref.Int(10), ref.Int(2)), ref.C("-", ref.Int(3), ref.Int(3)), ref.C("+", ref.Int(4611686018427387904), ref.Int(1)), ref.C("//", ref.Int(7), ref.Int(2)),
			ref.C("-", ref.Int(5)), ref.C("**", ref.Int(2), ref.Int(3)), ref.C("max", ref.Int(1), ref.Int(2)), ref.C("+", ref.Flt(1.5), ref.Int(1)), ref.C("abs", ref.Int(-3)), ref.C("mod", ref.Int(5), ref.Int(3)), ref.Int(7), ref.Flt(0.5)}
		for _, b := range befores {
			for _, e := range after {
				if !w.Mine() {
					continue
				}
				run(&c07Case{Kind: "expr", E: ref.Enc(e), Before: b}, 2)
				for _, op := range []string{"<", "=:=", ">="} {
					run(&c07Case{Kind: "cmp", Op: op, L: ref.Enc(e), R: ref.Enc(ref.Int(2)), Before: b}, 2)
				}
			}
		}
	}
	// complete grid: unary
	for _, f := range c07Unary {
		for _, x := range nums {
			if !w.Mine() {
				continue
			}
			run(&c07Case{Kind: "expr", E: ref.Enc(ref.C(f, x))}, 1)
		}
	}
	// complete grid: binary
	for _, f := range c07Binary {
		for _, x := range nums {
			for _, y := range nums {
				if !w.Mine() {
					continue
				}
				run(&c07Case{Kind: "expr", E: ref.Enc(ref.C(f, x, y))}, 2)
			}
		}
	}
	// shifts by every count 0..63 for a few operands
	for _, f := range []string{"<<", ">>"} {
		for _, x := range []int64{0, 1, 3, -1, -3, 1 << 31, 1<<62 + 1, math.MaxInt64, math.MinInt64, 1<<53 + 1} {
			for s := int64(0); s <= 63; s++ {
				if !w.Mine() {
					continue
				}
				run(&c07Case{Kind: "expr", E: ref.Enc(ref.C(f, ref.Int(x), ref.Int(s)))}, 2)
			}
		}
	}
	// depth sweep with SHARED sub-expressions: one compound bound to a variable occurs at the bottom of a
	// chain of every depth 0..N (and again at the top), left- and right-nested, under is/2 and a comparison
	d := ref.Atom("$d")
	shareds := []ref.Term{ref.C("-", ref.Int(3), ref.Int(1)), ref.C("max", ref.Int(2), ref.Flt(2.5)), ref.C("-", ref.Int(math.MaxInt64))}
	maxDepth := w.Pick(70, 300)
	for si, sh := range shareds {
		for n := 0; n <= maxDepth; n++ {
			if !w.Mine() {
				continue
			}
			if w.Expired() {
				return
			}
			var left, right ref.Term = ref.C("*", d, ref.Int(1)), ref.C("+", d, d)
			for i := 0; i < n; i++ {
				left = ref.C("+", left, ref.Int(1))
				right = ref.C("-", ref.Int(1), right)
			}
			for _, e := range []ref.Term{left, right, ref.C("-", left, d), ref.C("+", d, right), ref.C("-", ref.C("+", left, right), ref.C("abs", d))} {
				run(&c07Case{Kind: "expr", E: ref.Enc(e), Shared: ref.Enc(sh)}, n+si)
			}
			run(&c07Case{Kind: "cmp", Op: "=:=", L: ref.Enc(left), R: ref.Enc(ref.C("-", left, ref.C("-", d, d))), Shared: ref.Enc(sh)}, n+si)
			// control: the same depth without sharing
			run(&c07Case{Kind: "expr", E: ref.Enc(c07Subst(left, sh))}, n+si)
		}
	}
	// comparisons
	for _, op := range c07Cmp {
		for _, x := range nums {
			for _, y := range nums {
				if !w.Mine() {
					continue
				}
				run(&c07Case{Kind: "cmp", Op: op, L: ref.Enc(x), R: ref.Enc(y)}, 2)
			}
		}
	}
	// depth-2 trees over a reduced grid: f(g(x,y),z), f(z,g(x,y)), f(u(x),y), u(f(x,y)); comparisons of trees
	red := []ref.Term{ref.Int(0), ref.Int(1), ref.Int(-1), ref.Int(3), ref.Int(-7), ref.Int(1 << 62), ref.Int(math.MaxInt64), ref.Int(math.MinInt64),
		ref.Flt(0), ref.Flt(-2.5), ref.Flt(1e300), ref.Flt(math.MaxFloat64), ref.Flt(5e-324)}
	if w.Thorough() {
		red = append(red, ref.Int(2), ref.Int(1<<53+1), ref.Int(-1<<31), ref.Flt(0.5), ref.Flt(-1), ref.Flt(9223372036854775808.0))
	}
	inner := []string{"+", "-", "*", "//", "/", "mod", "min", "^"}
	outer := []string{"+", "-", "*", "//", "/", "div", "mod", "rem", "max", ">>", "/\\"}
	if w.Thorough() {
		inner, outer = c07Binary, c07Binary
	}
	for _, f := range outer {
		for _, g := range inner {
			for _, x := range red {
				for _, y := range red {
					for _, z := range red {
						if !w.Mine() {
							continue
						}
						if w.Expired() {
							return
						}
						run(&c07Case{Kind: "expr", E: ref.Enc(ref.C(f, ref.C(g, x, y), z))}, 3)
						run(&c07Case{Kind: "expr", E: ref.Enc(ref.C(f, z, ref.C(g, x, y)))}, 3)
					}
				}
			}
		}
	}
	for _, u := range c07Unary {
		for _, g := range c07Binary {
			for _, x := range red {
				for _, y := range red {
					if !w.Mine() {
						continue
					}
					run(&c07Case{Kind: "expr", E: ref.Enc(ref.C(u, ref.C(g, x, y)))}, 3)
					run(&c07Case{Kind: "expr", E: ref.Enc(ref.C(g, ref.C(u, x), y))}, 3)
					run(&c07Case{Kind: "expr", E: ref.Enc(ref.C(g, y, ref.C(u, x)))}, 3)
				}
			}
		}
	}
	for _, op := range c07Cmp {
		for _, g := range []string{"+", "*", "-", "/"} {
			for _, x := range red {
				for _, y := range red {
					for _, z := range red {
						if !w.Mine() {
							continue
						}
						run(&c07Case{Kind: "cmp", Op: op, L: ref.Enc(ref.C(g, x, y)), R: ref.Enc(z)}, 3)
					}
				}
			}
		}
	}
}

func c07Replay(b []byte) (string, string, bool) {
	var c c07Case
	if err := json.Unmarshal(b, &c); err != nil {
		return "", err.Error(), false
	}
	exp, act, _, _, ok := c07Eval(h.NewImpl(), &c)
	return exp, act, ok
}

func init() {
	h.Register(&h.Check{
		ID: "C07",
		Rule: "complete boundary grid: every unary and binary evaluable functor of the statement over all (pairs of) values of an integer grid dense around 0, 2^31, 2^32, sqrt(2^63), 2^53, 2^62, 2^63 plus every power of two up to 2^20 (thorough: 2^62) with its neighbours and a float grid of all magnitudes/signs, in all four int/float combinations; all shift counts 0..63; the six comparison predicates over the same pairs; all depth-2 expression trees over a reduced grid; a depth sweep 0..70 (300) of left- and right-nested chains whose bottom (and top) is ONE compound bound to a variable beforehand (a shared sub-expression), next to the same chains without sharing. A case is non-trivial when the reference defines its outcome (value set or error kind); distinct = distinct goal text.; plus histories: 19 evaluations that end in an error (an unbound operand in every position and nested, type, evaluation and overflow errors), caught, each followed in the same query by 12 ordinary evaluations and 36 comparisons",
		Explanation: "state = one expression (or comparison) over the grid; transition = one evaluation of it by the real interpreter (X is E / E1 op E2 through Query) compared with the math/big + IEEE-754 reference; every case is a one-step trace validated against the implementation",
		Assumptions: []string{
			"reference: integers with math/big and ISO 9.1/9.3/9.4 definitions (// truncating, div flooring, mod sign of divisor, rem sign of dividend); floats: Go float64 arithmetic is IEEE-754 binary64",
			"expressions are written in functional notation with quoted functors, so the check does not depend on operator parsing",
			"round/1 on exact ties accepts both floor(x+1/2) (ISO) and half-away-from-zero; int/int with an exact quotient accepts integer or float; >> on a negative operand accepts arithmetic or logical shift; shifts that overflow or have counts outside 0..63 are outside the statement and only must not panic",
		},
		Work:             c07Work,
		Replay:           c07Replay,
		QuickDeadline:    150 * time.Second,
		ThoroughDeadline: 15 * time.Minute,
	})
}
