package checks

import (
	"strings"
	"time"

	"verif/h"
)

// C09 — database updates follow the logical update view; retract removes its match.
// Explicit-state BFS: state = contents of two dynamic predicates; transition = one complete query
// executed on the real interpreter (history replayed on a fresh instance) and on the reference.

var c09Inits = []string{
	":- dynamic(p/1). :- dynamic(q/1). via(X) :- p(X).",
	":- dynamic(p/1). :- dynamic(q/1). via(X) :- p(X). p(1).",
	":- dynamic(p/1). :- dynamic(q/1). via(X) :- p(X). p(1). p(2). p(3).",
	":- dynamic(p/1). :- dynamic(q/1). via(X) :- p(X). p(1). p(2). p(1).",
	":- dynamic(p/1). :- dynamic(q/1). via(X) :- p(X). p(_). p(1). q(2).",
	":- dynamic(p/1). :- dynamic(q/1). via(X) :- p(X). p(1). p(X) :- q(X). p(3). q(2). q(3).",
}

// every op is one query; findall makes it run to exhaustion and records what the open call saw
var c09Ops = []string{
	"asserta(p(0))", "assertz(p(3))", "assertz(p(1))", "asserta(p(_))", "assertz((p(X) :- q(X)))", "assertz(q(2))", "asserta(q(1))",
	"X = 5, assertz(p(X))", "assertz(p(Y)), Y = 7",
	"retract(p(1))", "once(retract(p(X)))", "findall(X, retract(p(X)), L)", "findall(X-B, retract((p(X) :- B)), L)", "once(retract(p(2)))",
	"findall(X, (retract(p(X)), X == 2), L)", "assertz(p(Y)), Y = 1, findall(Z, retract(p(Z)), L)",
	"retractall(p(_))", "retractall(p(1))", "retractall(q(_))", "abolish(p/1)",
	"findall(X, p(X), L)", "findall(X, q(X), L)",
	// updates inside an open call to the same predicate
	"findall(X, (p(X), assertz(p(3))), L)",
	"findall(X, (p(X), asserta(p(0))), L)",
	"findall(X, (p(X), once(retract(p(2)))), L)",
	"findall(X, (p(X), retract(p(X))), L)",
	"findall(X, (p(X), retractall(p(_))), L)",
	"findall(X, (p(X), X == 1, abolish(p/1)), L)",
	"findall(X-Y, (p(X), p(Y), retract(p(Y))), L)",
	"findall(X, (clause(p(X), true), retract(p(X))), L)",
	"findall(X, (clause(p(X), B), asserta(p(9))), L)",
	// updates inside an open retract
	"findall(X, (retract(p(X)), asserta(p(0))), L)",
	"findall(X, (retract(p(X)), assertz(p(9))), L)",
	"findall(X, (retract(p(X)), retract(p(2))), L)",
	"findall(X, (retract(p(X)), once(retract(p(_)))), L)",
	"findall(X-Y, (retract(p(X)), retract(p(Y))), L)",
	"findall(X, (retract(p(X)), retractall(p(_))), L)",
	"findall(X, (retract(p(X)), X == 1, assertz(p(1))), L)",
	"findall(X, (retract(p(X)), abolish(p/1)), L)",
	"findall(X, (retract(p(X)), abolish(p/1), assertz(p(7))), L)",
	// clauses with a disjunctive body whose variables occur only in a later alternative, asserted and retracted
	// within one query (the stored term must not share variables with the asserting query)
	"assertz((p(5) :- (q(0) ; q(Z)))), Z = 2, findall(B, retract((p(5) :- B)), L)",
	"assertz((p(5) :- (q(0) ; q(Z)))), findall(Z, retract((p(5) :- (q(0) ; q(1)))), L)",
	"assertz((p(5) :- (q(0) ; q(Z)))), q(Z), findall(B, clause(p(5), B), L)",
	// several insertions at the front per solution of an open retract / from a nested enumeration
	"findall(X, (retract(p(X)), asserta(p(8)), asserta(p(9))), L)",
	"findall(X-Y, (retract(p(X)), member(Y, [5, 6]), asserta(p(Y))), L)",
	"findall(X, (p(X), asserta(p(8)), asserta(p(9)), once(retract(p(_)))), L)",
	"findall(X, (retract(p(X)), assertz(p(7)), asserta(p(8)), assertz(p(9))), L)",
	// the same stored call site before and after an update: a clause of a static helper that calls p/1, and one goal
	// of a query that is re-entered after the procedure was abolished and made anew
	"catch(findall(X, via(X), L), error(E, _), true)",
	"catch(findall(I-X, (member(I, [1, 2]), (I =:= 2 -> abolish(p/1), assertz(p(9)) ; true), p(X)), L), error(E, _), true)",
}

var c09Listing = []string{
	"catch(findall(X-B, clause(p(X), B), L), error(E, _), true)",
	"catch(findall(X-B, clause(q(X), B), L), error(E, _), true)",
	"catch(findall(X, p(X), L), error(E, _), true)",
	"catch(findall(X, via(X), L), error(E, _), true)",
}

// family B: a binary predicate, for non-linear patterns (r(X,X)) and aliased arguments
var c09InitsB = []string{
	":- dynamic(r/2).",
	":- dynamic(r/2). r(1,2). r(1,1). r(2,1).",
	":- dynamic(r/2). r(1,2). r(2,1). r(2,3).",
	":- dynamic(r/2). r(X,X). r(1,2). r(_,3).",
}

var c09OpsB = []string{
	"assertz(r(1,1))", "asserta(r(2,3))", "assertz(r(X,X))", "assertz(r(3,_))",
	"retractall(r(X,X))", "retractall(r(1,_))", "retractall(r(_,_))", "X = Y, retractall(r(X,Y))", "retractall(r(X,Y))", "retractall(r(2,1))",
	"findall(X, retract(r(X,X)), L)", "once(retract(r(X,X)))", "findall(X-Y, retract(r(X,Y)), L)", "X = Y, findall(X, retract(r(X,Y)), L)", "once(retract(r(_,3)))",
	"findall(X-Y, r(X,Y), L)", "findall(X, r(X,X), L)",
	// a variable of the asserting query reappears, still unbound, at ANOTHER position of a retract pattern
	"assertz(r(X,1)), findall(X, retract(r(2,X)), L)", "assertz(r(X,Y)), findall(X-Y, retract(r(Y,X)), L)", "assertz(r(X,1)), retractall(r(2,X))", "assertz(r(X,X)), findall(Y, retract(r(1,Y)), L)",
	"findall(X-Y, (r(X,Y), retractall(r(Z,Z))), L)", "findall(X-Y, (r(X,Y), retractall(r(X,_))), L)", "findall(X-Y, (retract(r(X,Y)), assertz(r(Y,X))), L)",
}

var c09ListingB = []string{
	"catch(findall(r(X,Y), clause(r(X,Y), true), L), error(E, _), true)",
	"catch(findall(r(X,Y), r(X,Y), L), error(E, _), true)",
	"catch(findall(X, r(X,X), L), error(E, _), true)",
}

// family C: a predicate of arity 0 (its facts are equal atoms: duplicates can only be told apart by
// position) and the SAME term instance asserted several times through a variable
const c09HelpC = " twice(C) :- assertz(C), assertz(C). thrice(C) :- assertz(C), assertz(C), assertz(C). hist(C) :- assertz(C), assertz(C), (retract(C), once(retract(C)), assertz(C), fail ; true)."

var c09InitsC = []string{
	":- dynamic(f/0). :- dynamic(p/1)." + c09HelpC,
	":- dynamic(f/0). :- dynamic(p/1). f. f." + c09HelpC,
	":- dynamic(f/0). :- dynamic(p/1). f. f :- p(1). f. p(1). p(1)." + c09HelpC,
}

var c09OpsC = []string{
	"assertz(f)", "asserta(f)", "assertz((f :- p(1)))", "retract(f)", "once(retract(f))", "findall(x, retract(f), L)", "findall(B, retract((f :- B)), L)",
	"(retract(f), once(retract(f)), assertz(f), fail ; true)",
	"findall(x, (retract(f), assertz(f)), L)", "findall(x, (f, once(retract(f))), L)", "findall(x, (retract(f), asserta(f), once(retract(f))), L)",
	"C = p(1), assertz(C), assertz(C)", "twice(p(2))", "thrice(p(1))", "thrice(f)", "hist(p(1))", "hist(f)", "hist(p(_))",
	"(retract(p(X)), once(retract(p(X))), assertz(p(X)), fail ; true)",
	"G = p(1), (retract(G), once(retract(G)), assertz(G), fail ; true)",
	"G = p(1), assertz(G), (retract(G), once(retract(G)), assertz(G), fail ; true)",
	"once(retract(p(1)))", "retractall(f)", "abolish(f/0)", "findall(X, p(X), L)", "findall(x, f, L)",
}

var c09ListingC = []string{
	"catch(findall(B, clause(f, B), L), error(E, _), true)",
	"catch(findall(X-B, clause(p(X), B), L), error(E, _), true)",
	"catch(findall(x, f, L), error(E, _), true)",
}

type c09Family struct {
	name            string
	inits, ops, lst []string
}

var c09Fams = []c09Family{{"A", c09Inits, c09Ops, c09Listing}, {"B", c09InitsB, c09OpsB, c09ListingB}, {"C", c09InitsC, c09OpsC, c09ListingC}}

func c09Case(f *c09Family, init int, hist []int) *h.ProgCase {
	pc := &h.ProgCase{Budget: 5000, Steps: []h.ProgStep{h.Consult(rdAll(f.inits[init])...)}}
	for _, o := range hist {
		pc.Steps = append(pc.Steps, h.Query(rd(f.ops[o]), 20))
	}
	for _, l := range f.lst {
		pc.Steps = append(pc.Steps, h.Query(rd(l), 2))
	}
	return pc
}

type c09Node struct {
	init int
	hist []int
}

func c09Work(w *h.W) {
	for i := range c09Fams {
		c09BFS(w, &c09Fams[i])
	}
}

func c09BFS(w *h.W, f *c09Family) {
	c09Inits, c09Ops := f.inits, f.ops
	depthUnmerged := w.Pick(2, 3)
	depthMax := w.Pick(3, 4)
	var frontier []c09Node
	for i := range c09Inits {
		for o := range c09Ops {
			if w.Mine() {
				frontier = append(frontier, c09Node{i, []int{o}})
			}
		}
	}
	seen := map[string]bool{}
	for depth := 1; depth <= depthMax && len(frontier) > 0; depth++ {
		var next []c09Node
		for _, nd := range frontier {
			if w.Expired() {
				return
			}
			pc := c09Case(f, nd.init, nd.hist)
			w.Guard(pc)
			res, first, inconc := h.RunProg(pc)
			w.Unguard()
			w.Eval(1)
			w.Transitions(1)
			last := nd.hist[len(nd.hist)-1]
			w.Outcome("op" + c09Ops[last][:min(18, len(c09Ops[last]))] + ":" + verdictOf(res, first, inconc))
			w.Sample(pc.Describe())
			if inconc {
				w.Inconclusive(1)
				continue
			}
			w.Traces(1)
			if first >= 0 {
				r := res[first]
				opIdx := first - 1
				what := "listing after the history"
				if opIdx >= 0 && opIdx < len(nd.hist) {
					what = "op " + c09Ops[nd.hist[opIdx]]
				}
				sig := "db: " + what + ": " + whyClass(r.Why)
				w.Violation(sig, pc, r.RefState+" "+strings.Join(r.RefAns, " | ")+" "+r.RefErr, r.Impl.String()+" ("+r.Why+")", len(nd.hist))
				continue // do not explore beyond a state that already differs
			}
			// state key: the reference listing (= model state) plus the last operation
			n := len(res)
			key := strings.Join(res[n-3].RefAns, "|") + "#" + strings.Join(res[n-2].RefAns, "|")
			w.Nontrivial(key + "@" + c09Ops[last])
			if depth > depthUnmerged || depth == depthMax {
				k := key + "@" + c09Ops[last]
				if seen[k] {
					continue
				}
				seen[k] = true
			}
			w.States(1)
			if depth < depthMax {
				for o := range c09Ops {
					next = append(next, c09Node{nd.init, append(append([]int{}, nd.hist...), o)})
				}
			}
		}
		frontier = next
	}
}

func verdictOf(res []h.StepResult, first int, inconc bool) string {
	switch {
	case inconc:
		return "inconclusive"
	case first >= 0:
		return "differ"
	}
	return "agree"
}

func init() {
	h.Register(&h.Check{
		ID: "C09",
		Rule: "explicit-state BFS over database histories: 6 initial states of two dynamic predicates p/1, q/1 (empty, single, several, duplicates, clause with a variable, facts mixed with a rule) x an alphabet of 49 operations (incl. calls through one stored clause of a static helper before and after updates, and a goal re-entered after abolish) (asserta/assertz incl. bindings made before/after, retract first/all/by pattern, retractall, abolish, calls, and updates issued inside an open call, an open clause/2 and an open retract/1, each run to exhaustion under findall so that what the open goal saw is recorded); the same for family B (a binary predicate r/2: non-linear and aliased patterns) and family C (a predicate of arity 0, whose duplicate facts are equal atoms, and one term instance asserted several times through a variable, 26 operations); all histories up to depth U without merging, then merged by key (model database state, last operation) up to depth D. Non-trivial/distinct = distinct (model state, last op).",
		Explanation: "state = contents and order of p/1 and q/1 in the reference model; transition = one operation executed on the REAL interpreter (the history is replayed on a fresh instance) and on the reference with generation-free logical update view (call-time snapshots); after every transition the operation's answers/error and the full listing of both predicates (clause/2) plus the answers of p(X) are compared",
		Assumptions: []string{"reference: ISO 7.5.4 logical update view - a call, clause/2 and retract/1 enumerate the snapshot taken when they were called; retract succeeds once per matching snapshot clause (ISO 8.9.3.4 example) and removes it if still present", "abolish/retractall of a procedure that does not exist are not stated by the property and end the branch as inconclusive"},
		Work:        c09Work,
		Replay:      h.ProgReplay,
		QuickDeadline: 150 * time.Second, ThoroughDeadline: 25 * time.Minute,
	})
}
