package checks

import (
	"encoding/json"
	"fmt"
	"math"
	"reflect"
	"strings"
	"time"

	"github.com/ichiban/prolog"

	"verif/h"
	"verif/ref"
)

// C15 — Go values cross the API as data: placeholders = literals, Scan exact or error.

type c15Case struct {
	Kind  string `json:"kind"` // "string", "value", "count", "scan"
	DQ    string `json:"double_quotes,omitempty"`
	Pos   int    `json:"position,omitempty"`
	Str   string `json:"str,omitempty"`
	Val   string `json:"val,omitempty"` // name of a Go value in c15Values
	NPh   int    `json:"placeholders,omitempty"`
	NArg  int    `json:"arguments,omitempty"`
	Text  string `json:"text,omitempty"`  // a program text with placeholders (kind "text")
	Order []int  `json:"order,omitempty"` // kind "rows": the order in which the same-named struct types are scanned into
	// scan
	Query string `json:"query,omitempty"`
	Dest  string `json:"dest,omitempty"`
}

var c15Alphabet = []string{"a", "A", "_", "'", "\"", "\\", ".", ",", ")", "(", "[", "]", "{", "}", "|", "%", "?", ":", "-", " ", "\n", "\x00", "é", "日", "\U0010FFFF", "0"}

var c15Positions = []string{"X = ?", "X = f(?, b)", "X = [a, ?]", "X = - ?", "X = [?|?]", "Y = ?, X = g(Y, Y)"}

// the term a double-quoted literal with exactly these runes denotes
func c15Denote(s, dq string) ref.Term {
	switch dq {
	case "atom":
		return ref.Atom(s)
	case "codes":
		var es []ref.Term
		for _, r := range s {
			es = append(es, ref.Int(r))
		}
		return ref.List(es...)
	}
	var es []ref.Term
	for _, r := range s {
		es = append(es, ref.Atom(string(r)))
	}
	return ref.List(es...)
}

func c15Wrap(pos int, v ref.Term) ref.Term {
	switch pos {
	case 0:
		return v
	case 1:
		return ref.C("f", v, ref.Atom("b"))
	case 2:
		return ref.List(ref.Atom("a"), v)
	case 3:
		return ref.C("-", v)
	case 4:
		return ref.C(".", v, v)
	case 5:
		return ref.C("g", v, v)
	}
	panic(pos)
}

type c15GoVal struct {
	Name string
	V    interface{}
	T    ref.Term // nil: must be rejected with an error
}

func c15Values() []c15GoVal {
	li := func(xs ...int64) ref.Term {
		var es []ref.Term
		for _, x := range xs {
			es = append(es, ref.Int(x))
		}
		return ref.List(es...)
	}
	return []c15GoVal{
		{"int0", int(0), ref.Int(0)}, {"int-max", int(math.MaxInt64), ref.Int(math.MaxInt64)}, {"int-min", int(math.MinInt64), ref.Int(math.MinInt64)},
		{"int8-min", int8(-128), ref.Int(-128)}, {"int8-max", int8(127), ref.Int(127)},
		{"int16-min", int16(-32768), ref.Int(-32768)}, {"int16-max", int16(32767), ref.Int(32767)},
		{"int32-min", int32(math.MinInt32), ref.Int(math.MinInt32)}, {"int32-max", int32(math.MaxInt32), ref.Int(math.MaxInt32)},
		{"int64-min", int64(math.MinInt64), ref.Int(math.MinInt64)}, {"int64-max", int64(math.MaxInt64), ref.Int(math.MaxInt64)}, {"int64-neg1", int64(-1), ref.Int(-1)},
		{"float-1.5", 1.5, ref.Flt(1.5)}, {"float-max", math.MaxFloat64, ref.Flt(math.MaxFloat64)}, {"float-negmax", -math.MaxFloat64, ref.Flt(-math.MaxFloat64)},
		{"float-denorm", 5e-324, ref.Flt(5e-324)}, {"float-negzero", math.Copysign(0, -1), ref.Flt(math.Copysign(0, -1))}, {"float-0.1", 0.1, ref.Flt(0.1)},
		{"float32-1.5", float32(1.5), ref.Flt(1.5)}, {"float32-0.1", float32(0.1), ref.Flt(float64(float32(0.1)))},
		{"ints", []int{1, -2, 3}, li(1, -2, 3)}, {"ints-empty", []int{}, ref.Nil}, {"int8s", []int8{-128, 127}, li(-128, 127)},
		{"nested", [][]int{{1}, {}, {2, 3}}, ref.List(li(1), ref.Nil, li(2, 3))}, {"array", [2]int64{math.MinInt64, math.MaxInt64}, li(math.MinInt64, math.MaxInt64)},
		{"floats", []float64{0.5, -0.0}, ref.List(ref.Flt(0.5), ref.Flt(0))},
		{"uint", uint(1), nil}, {"map", map[string]int{"a": 1}, nil}, {"nil", nil, nil}, {"bool", true, nil}, {"struct", struct{ A int }{1}, nil}, {"uint8s", []uint8{1}, nil}, {"ptr", new(int), nil},
	}
}

func c15SetDQ(p *prolog.Interpreter, dq string) error {
	return p.QuerySolution("set_prolog_flag(double_quotes, " + dq + ").").Err()
}

func c15Query(p *prolog.Interpreter, q string, args ...interface{}) (ref.Term, error) {
	sols, err := p.Query(q, args...)
	if err != nil {
		return nil, err
	}
	defer sols.Close()
	if !sols.Next() {
		if e := sols.Err(); e != nil {
			return nil, e
		}
		return nil, fmt.Errorf("no answer")
	}
	m := map[string]h.Cap{}
	if err := sols.Scan(m); err != nil {
		return nil, err
	}
	c := m["X"]
	return h.NewConv().Term(c.T, c.Env), nil
}

func c15Same(a, b ref.Term) bool {
	na, nb := ref.NewNamer(), ref.NewNamer()
	return ref.Canon(a, na) == ref.Canon(b, nb)
}

func c15Run(c *c15Case) (exp, act, sig string, ok bool) {
	p := prolog.New(strings.NewReader(""), nil)
	if c.DQ != "" {
		if err := c15SetDQ(p, c.DQ); err != nil {
			return "", err.Error(), "harness", false
		}
	}
	dq := c.DQ
	if dq == "" {
		dq = h.DefaultDQ()
	}
	switch c.Kind {
	case "string":
		q := c15Positions[c.Pos] + " ."
		n := strings.Count(c15Positions[c.Pos], "?")
		args := make([]interface{}, n)
		for i := range args {
			args[i] = c.Str
		}
		got, err := c15Query(p, q, args...)
		want := c15Wrap(c.Pos, c15Denote(c.Str, dq))
		exp = ref.Canon(want, ref.NewNamer())
		if err != nil {
			return exp, "error: " + err.Error(), "placeholder: string raises an error / is re-interpreted", false
		}
		if !c15Same(got, want) {
			return exp, ref.Canon(got, ref.NewNamer()), "placeholder: string does not denote the literal's term", false
		}
		return exp, exp, "", true
	case "value":
		var gv c15GoVal
		for _, v := range c15Values() {
			if v.Name == c.Val {
				gv = v
			}
		}
		got, err := c15Query(p, "X = f(?) .", gv.V)
		if gv.T == nil {
			if err == nil {
				return "an error (unsupported Go kind)", ref.Canon(got, ref.NewNamer()), "placeholder: unsupported Go value accepted", false
			}
			return "error", "error", "", true
		}
		want := ref.C("f", gv.T)
		exp = ref.Canon(want, ref.NewNamer())
		if err != nil {
			return exp, "error: " + err.Error(), "placeholder: Go value rejected", false
		}
		if !c15Same(got, want) {
			return exp, ref.Canon(got, ref.NewNamer()), "placeholder: Go value differs from the literal", false
		}
		return exp, exp, "", true
	case "count":
		q := "X = f(" + strings.TrimSuffix(strings.Repeat("?, ", c.NPh), ", ") + ") ."
		if c.NPh == 0 {
			q = "X = f ."
		}
		args := make([]interface{}, c.NArg)
		for i := range args {
			args[i] = i
		}
		_, err := c15Query(p, q, args...)
		if (c.NPh != c.NArg) != (err != nil) {
			return fmt.Sprintf("error iff the counts differ (%d placeholders, %d arguments)", c.NPh, c.NArg), fmt.Sprintf("err=%v", err), "placeholder: count mismatch not reported / matching count rejected", false
		}
		// the same through Exec
		text := "fact(" + strings.TrimSuffix(strings.Repeat("?, ", c.NPh), ", ") + ") ."
		if c.NPh == 0 {
			text = "fact ."
		}
		err = p.Exec(text, args...)
		if (c.NPh != c.NArg) != (err != nil) {
			return fmt.Sprintf("Exec: error iff the counts differ (%d placeholders, %d arguments)", c.NPh, c.NArg), fmt.Sprintf("err=%v", err), "placeholder: count mismatch not reported by Exec", false
		}
		return "", "", "", true
	case "text":
		// a text of several clauses and directives with placeholders distributed over them (c.Text, '?' marks);
		// arguments are 0, 1, 2, ... and the string "s<i>": the loaded facts must hold exactly those values
		args := make([]interface{}, c.NArg)
		for i := range args {
			if i%2 == 0 {
				args[i] = i
			} else {
				args[i] = fmt.Sprintf("s%d", i)
			}
		}
		nph := strings.Count(c.Text, "?")
		err := p.Exec(c.Text, args...)
		if (nph != c.NArg) != (err != nil) {
			return fmt.Sprintf("Exec(%q): error iff the counts differ (%d placeholders, %d arguments)", c.Text, nph, c.NArg), fmt.Sprintf("err=%v", err), "placeholder: a text of several clauses: count mismatch not reported / matching count rejected", false
		}
		if err != nil {
			return "", "", "", true
		}
		if nph == 0 {
			return "", "", "", true
		}
		// integers: exactly the values; strings: exactly what the literal standing next to the placeholder denotes
		got, qerr := c15Query(p, "findall(K-V, (ph(K, V), integer(V)), X) .")
		if qerr != nil {
			return "ph/2 holds the placeholder values", qerr.Error(), "placeholder: a text of several clauses: values not loaded", false
		}
		var want []ref.Term
		for i := 0; i < nph; i += 2 {
			want = append(want, ref.C("-", ref.Int(int64(i)), ref.Int(int64(i))))
		}
		if !c15Same(got, ref.List(want...)) {
			return ref.Canon(ref.List(want...), ref.NewNamer()), ref.Canon(got, ref.NewNamer()), "placeholder: a text of several clauses: values differ", false
		}
		if nph > 1 {
			d1, e1 := c15Query(p, "findall(K-V, (ph(K, V), \\+ integer(V)), X) .")
			d2, e2 := c15Query(p, "findall(K-V, lit(K, V), X) .")
			if e1 != nil || e2 != nil {
				return "ph/2 and lit/2 can be listed", fmt.Sprint(e1, e2), "placeholder: a text of several clauses: values not loaded", false
			}
			if !c15Same(d1, d2) {
				return "the literals: " + ref.Canon(d2, ref.NewNamer()), "the placeholders: " + ref.Canon(d1, ref.NewNamer()), "placeholder: a string placeholder differs from the literal standing next to it in the text", false
			}
		}
		return "", "", "", true
	case "scan":
		return c15Scan(p, c)
	case "rows":
		return c15Rows(p, c.Order)
	case "alias":
		// several Go values of ONE call that are views of the same memory: each placeholder denotes its own value
		views, terms := c15Views()
		args := make([]interface{}, len(c.Order))
		var want []ref.Term
		for i, k := range c.Order {
			args[i] = views[k]
			want = append(want, terms[k])
		}
		q := "X = f(" + strings.TrimSuffix(strings.Repeat("?, ", len(args)), ", ") + ") ."
		wt := ref.C("f", want...)
		exp = ref.Canon(wt, ref.NewNamer())
		got, err := c15Query(p, q, args...)
		if err != nil {
			return exp, "error: " + err.Error(), "placeholder: Go value rejected (views of one backing array)", false
		}
		if !c15Same(got, wt) {
			return exp, ref.Canon(got, ref.NewNamer()), "placeholder: views of one backing array do not denote their own values", false
		}
		// and through Exec: the loaded fact holds the same term
		if err := p.Exec("fact("+strings.TrimSuffix(strings.Repeat("?, ", len(args)), ", ")+") .", args...); err != nil {
			return exp, "error: " + err.Error(), "placeholder: Go value rejected by Exec (views of one backing array)", false
		}
		got, err = c15Query(p, "fact("+c15VarList(len(args))+"), X = f("+c15VarList(len(args))+") .")
		if err != nil {
			return exp, "error: " + err.Error(), "placeholder: fact loaded by Exec not found (views of one backing array)", false
		}
		if !c15Same(got, wt) {
			return exp, ref.Canon(got, ref.NewNamer()), "placeholder: views of one backing array do not denote their own values (Exec)", false
		}
		return exp, exp, "", true
	}
	return "", "unknown kind", "harness", false
}

func c15VarList(n int) string {
	var vs []string
	for i := 0; i < n; i++ {
		vs = append(vs, fmt.Sprintf("V%d", i))
	}
	return strings.Join(vs, ", ")
}

// c15Views returns Go values that share memory (slices of one backing array with the same and with different
// starts and lengths, nested slices whose rows are such views, the same for int64 and float64 elements, and an
// independent slice with equal contents) and the term each denotes.
func c15Views() ([]interface{}, []ref.Term) {
	li := func(xs ...int64) ref.Term {
		var es []ref.Term
		for _, x := range xs {
			es = append(es, ref.Int(x))
		}
		return ref.List(es...)
	}
	b := []int{1, 2, 3, 4}
	b64 := []int64{5, 6, 7}
	fl := []float64{0.5, 1.5, 2.5}
	views := []interface{}{b[:0], b[:1], b[:2], b, b[1:3], b[2:], []int{1, 2}, [][]int{b[:1], b[:3], b}, [][]int{b[1:2], b[1:4]}, b64[:1], b64, b64[1:], fl[:2], fl, [][]int{b[:2], {1, 2}, b[:2]}}
	terms := []ref.Term{ref.Nil, li(1), li(1, 2), li(1, 2, 3, 4), li(2, 3), li(3, 4), li(1, 2), ref.List(li(1), li(1, 2, 3), li(1, 2, 3, 4)), ref.List(li(2), li(2, 3, 4)), li(5), li(5, 6, 7), li(6, 7), ref.List(ref.Flt(0.5), ref.Flt(1.5)), ref.List(ref.Flt(0.5), ref.Flt(1.5), ref.Flt(2.5)), ref.List(li(1, 2), li(1, 2), li(1, 2))}
	return views, terms
}

// ---- Scan ------------------------------------------------------------------------------------------

type c15Answer struct {
	Name  string
	Setup string // a query run first (flags)
	Query string // binds X
	// the value: exactly one of
	Int    *int64
	Flt    *float64
	Str    *string // atom text
	List   []c15Answer
	Other  bool // compound, partial list, unbound: only interface{}-like destinations may accept
	IsList bool
}

func c15Answers() []c15Answer {
	i := func(v int64) *int64 { return &v }
	f := func(v float64) *float64 { return &v }
	s := func(v string) *string { return &v }
	var out []c15Answer
	for _, v := range []int64{0, 1, -1, 127, 128, -128, -129, 255, 300, 32767, 32768, -32768, -32769, 65536, math.MaxInt32, math.MaxInt32 + 1, math.MinInt32, math.MinInt32 - 1, 1 << 32, 1<<32 + 1, 3000000000, 1 << 53, math.MaxInt64, math.MinInt64} {
		out = append(out, c15Answer{Name: fmt.Sprint("int", v), Query: fmt.Sprintf("X is %d + 0.", v), Int: i(v)})
	}
	for _, v := range []float64{0, 1.5, -2.25, 0.1, 1e300, -1e300, 3.4028234663852886e38, 3.4028235677973366e38, 5e-324, 1e-50, 16777217} {
		out = append(out, c15Answer{Name: fmt.Sprint("float", v), Query: "X is " + ref.FloatText(v) + " + 0.0.", Flt: f(v)})
	}
	out = append(out,
		c15Answer{Name: "atom", Query: "X = foo.", Str: s("foo")},
		c15Answer{Name: "atom-empty", Query: "X = ''.", Str: s("")},
		c15Answer{Name: "atom-special", Query: "X = 'hello world'.", Str: s("hello world")},
		c15Answer{Name: "nil", Query: "X = [].", IsList: true, Str: s("[]")},
		c15Answer{Name: "ints", Query: "X = [1, 2, 300].", IsList: true, List: []c15Answer{{Int: i(1)}, {Int: i(2)}, {Int: i(300)}}},
		c15Answer{Name: "floats", Query: "X = [1.5, 0.1].", IsList: true, List: []c15Answer{{Flt: f(1.5)}, {Flt: f(0.1)}}},
		c15Answer{Name: "atoms", Query: "X = [a, bc].", IsList: true, List: []c15Answer{{Str: s("a")}, {Str: s("bc")}}},
		c15Answer{Name: "mixed", Query: "X = [1, a].", IsList: true, List: []c15Answer{{Int: i(1)}, {Str: s("a")}}},
		c15Answer{Name: "nested", Query: "X = [[1], [], [2, 3]].", IsList: true, List: []c15Answer{{IsList: true, List: []c15Answer{{Int: i(1)}}}, {IsList: true}, {IsList: true, List: []c15Answer{{Int: i(2)}, {Int: i(3)}}}}},
		c15Answer{Name: "big-in-list", Query: "X = [1, 70000].", IsList: true, List: []c15Answer{{Int: i(1)}, {Int: i(70000)}}},
		c15Answer{Name: "partial", Query: "X = [a|_].", Other: true},
		c15Answer{Name: "improper", Query: "X = [a|b].", Other: true},
		c15Answer{Name: "compound", Query: "X = f(a).", Other: true},
		c15Answer{Name: "unbound", Query: "X = _.", Other: true},
	)
	// the same lists held in other internal representations (answers of built-ins, strings, lists
	// completed after the fact)
	ints3 := []c15Answer{{Int: i(1)}, {Int: i(2)}, {Int: i(300)}}
	abc := []c15Answer{{Str: s("a")}, {Str: s("b")}, {Str: s("c")}}
	codes := []c15Answer{{Int: i(97)}, {Int: i(98)}, {Int: i(300)}}
	for _, r := range []struct {
		name, q string
		l       []c15Answer
	}{
		{"ints-append", "append([1], [2, 300], X).", ints3},
		{"ints-findall", "findall(E, member(E, [1, 2, 300]), X).", ints3},
		{"ints-partial-bound", "X = [1|T], T = [2, 300].", ints3},
		{"ints-sort", "sort([300, 2, 1, 2], X).", ints3},
		{"ints-univ", "f(1, 2, 300) =.. [_|X].", ints3},
		{"ints-length", "length(X, 3), X = [1, 2|T], T = [300].", ints3},
		{"chars-atom_chars", "atom_chars(abc, X).", abc},
		{"chars-string", "X = \"abc\".", abc},
		{"chars-string-tail", "X = [a|T], T = \"bc\".", abc},
		{"codes-atom_codes", "atom_codes('abĬ', X).", codes},
		{"codes-string", "X = \"abĬ\".", codes},
		{"nested-repr", "atom_codes(a, A), findall(E, member(E, [1]), B), X = [A, [], B].", []c15Answer{{IsList: true, List: []c15Answer{{Int: i(97)}}}, {IsList: true}, {IsList: true, List: []c15Answer{{Int: i(1)}}}}},
	} {
		setup := ""
		switch {
		case strings.HasPrefix(r.name, "chars-string"):
			setup = "set_prolog_flag(double_quotes, chars)."
		case r.name == "codes-string":
			setup = "set_prolog_flag(double_quotes, codes)."
		}
		out = append(out, c15Answer{Name: r.name, Setup: setup, Query: r.q, IsList: true, List: r.l})
	}
	return out
}

var c15Dests = []string{"int", "int8", "int16", "int32", "int64", "float32", "float64", "string", "[]int", "[]int8", "[]int64", "[]float64", "[]string", "[][]int", "interface{}", "[]interface{}"}

func c15NewDest(name string) reflect.Value {
	switch name {
	case "int":
		return reflect.ValueOf(new(int))
	case "int8":
		return reflect.ValueOf(new(int8))
	case "int16":
		return reflect.ValueOf(new(int16))
	case "int32":
		return reflect.ValueOf(new(int32))
	case "int64":
		return reflect.ValueOf(new(int64))
	case "float32":
		return reflect.ValueOf(new(float32))
	case "float64":
		return reflect.ValueOf(new(float64))
	case "string":
		return reflect.ValueOf(new(string))
	case "[]int":
		return reflect.ValueOf(new([]int))
	case "[]int8":
		return reflect.ValueOf(new([]int8))
	case "[]int64":
		return reflect.ValueOf(new([]int64))
	case "[]float64":
		return reflect.ValueOf(new([]float64))
	case "[]string":
		return reflect.ValueOf(new([]string))
	case "[][]int":
		return reflect.ValueOf(new([][]int))
	case "interface{}":
		return reflect.ValueOf(new(interface{}))
	case "[]interface{}":
		return reflect.ValueOf(new([]interface{}))
	}
	panic(name)
}

// c15Faithful reports whether the Go value v stored in a destination represents answer a exactly.
func c15Faithful(v reflect.Value, a *c15Answer) bool {
	for v.Kind() == reflect.Interface && !v.IsNil() {
		v = v.Elem()
	}
	switch {
	case a.Int != nil:
		switch v.Kind() {
		case reflect.Int, reflect.Int8, reflect.Int16, reflect.Int32, reflect.Int64:
			return v.Int() == *a.Int
		}
		return false
	case a.Flt != nil:
		switch v.Kind() {
		case reflect.Float64:
			return v.Float() == *a.Flt
		case reflect.Float32:
			// the nearest float32 is accepted for values that are not representable; an overflow
			// to infinity (or a flush to zero of a non-zero value) is not
			f := v.Float()
			if math.IsInf(f, 0) || (f == 0 && *a.Flt != 0) {
				return false
			}
			return float32(*a.Flt) == float32(f)
		}
		return false
	case a.IsList:
		if v.Kind() != reflect.Slice {
			return false
		}
		if v.Len() != len(a.List) {
			return false
		}
		for i := range a.List {
			if !c15Faithful(v.Index(i), &a.List[i]) {
				return false
			}
		}
		return true
	case a.Str != nil:
		return v.Kind() == reflect.String && v.String() == *a.Str
	}
	return false
}

// ---- named struct destinations: several DIFFERENT types that share package and name (function-local types),
// with different layouts, tags and unexported fields, scanned into one after the other in every order ----

const c15RowQuery = "X = 1, Y = abc, Z = [1, 2], W = 2.5."

func c15RowA(s *prolog.Solutions) string {
	type row struct {
		X int
		Y string
	}
	var r row
	if err := s.Scan(&r); err != nil {
		return "error: " + err.Error()
	}
	return fmt.Sprintf("X=%d Y=%s", r.X, r.Y)
}

func c15RowB(s *prolog.Solutions) string {
	type row struct {
		Y string
		Z []int
		X int
	}
	var r row
	if err := s.Scan(&r); err != nil {
		return "error: " + err.Error()
	}
	return fmt.Sprintf("X=%d Y=%s Z=%v", r.X, r.Y, r.Z)
}

func c15RowC(s *prolog.Solutions) string {
	type row struct {
		W     float64
		Count int `prolog:"X"`
		hid   int
		Z     []int64
	}
	var r row
	if err := s.Scan(&r); err != nil {
		return "error: " + err.Error()
	}
	return fmt.Sprintf("X=%d W=%v Z=%v hid=%d", r.Count, r.W, r.Z, r.hid)
}

func c15RowD(s *prolog.Solutions) string {
	type row struct {
		Z []int
		W float64
	}
	var r row
	if err := s.Scan(&r); err != nil {
		return "error: " + err.Error()
	}
	return fmt.Sprintf("W=%v Z=%v", r.W, r.Z)
}

var c15RowFuncs = []struct {
	name string
	f    func(*prolog.Solutions) string
	want string
}{
	{"A", c15RowA, "X=1 Y=abc"}, {"B", c15RowB, "X=1 Y=abc Z=[1 2]"}, {"C", c15RowC, "X=1 W=2.5 Z=[1 2] hid=0"}, {"D", c15RowD, "W=2.5 Z=[1 2]"},
	{"E", nil, "error"},
}

func init() { c15RowFuncs[4].f = c15RowE }

func c15RowE(s *prolog.Solutions) string {
	type row struct {
		X int
	}
	var r row
	if err := s.Scan(r); err != nil { // a struct passed by value: nothing can be stored, an error is the only right outcome
		return "error: " + err.Error()
	}
	return "no error for a struct passed by value"
}

func c15Rows(p *prolog.Interpreter, order []int) (exp, act, sig string, ok bool) {
	defer func() {
		if r := recover(); r != nil {
			exp, act, sig, ok = "the exact values or an error", fmt.Sprintf("Scan panicked: %v", r), "scan: named struct destination: Scan panics", false
		}
	}()
	for _, i := range order {
		sols, err := p.Query(c15RowQuery)
		if err != nil || !sols.Next() {
			return "an answer", fmt.Sprint(err), "harness: query", false
		}
		got := c15RowFuncs[i].f(sols)
		sols.Close()
		if got != c15RowFuncs[i].want && !strings.HasPrefix(got, "error: ") {
			return fmt.Sprintf("type %s (scanned in order %v): %s, or an error", c15RowFuncs[i].name, order, c15RowFuncs[i].want), got, "scan: named struct destination: a field holds another variable's value or is left out", false
		}
	}
	return "", "", "", true
}

func c15Scan(p *prolog.Interpreter, c *c15Case) (exp, act, sig string, ok bool) {
	var a *c15Answer
	for _, x := range c15Answers() {
		if x.Name == c.Val {
			xx := x
			a = &xx
		}
	}
	if a.Setup != "" {
		if err := p.QuerySolution(a.Setup).Err(); err != nil {
			return "the setup query succeeds", err.Error(), "harness: setup", false
		}
	}
	for _, carrier := range []string{"struct", "map", "two-vars-map"} {
		q := a.Query
		sols, err := p.Query(q)
		if carrier == "two-vars-map" {
			// a second variable bound to a longer list first: destinations must not share storage
			sols, err = p.Query("W = [7, 8, 9, 10], " + q)
		}
		if err != nil {
			return "", err.Error(), "harness: query", false
		}
		if !sols.Next() {
			sols.Close()
			return "an answer", fmt.Sprint(sols.Err()), "harness: no answer", false
		}
		dest := c15NewDest(c.Dest)
		var serr error
		var stored reflect.Value
		switch carrier {
		case "struct":
			st := reflect.New(reflect.StructOf([]reflect.StructField{{Name: "X", Type: dest.Type().Elem()}}))
			serr = sols.Scan(st.Interface())
			stored = st.Elem().Field(0)
		case "map", "two-vars-map":
			mp := reflect.MakeMap(reflect.MapOf(reflect.TypeOf(""), dest.Type().Elem()))
			serr = sols.Scan(mp.Interface())
			stored = mp.MapIndex(reflect.ValueOf("X"))
			if carrier == "two-vars-map" && serr == nil && (c.Dest == "[]int" || c.Dest == "[]int64" || c.Dest == "[]interface{}" || c.Dest == "interface{}") {
				wv := mp.MapIndex(reflect.ValueOf("W"))
				wa := c15Answer{IsList: true}
				for _, n := range []int64{7, 8, 9, 10} {
					n := n
					wa.List = append(wa.List, c15Answer{Int: &n})
				}
				if wv.IsValid() && !c15Faithful(wv, &wa) {
					sols.Close()
					return "W = [7 8 9 10] and X as answered", fmt.Sprintf("W = %v, X = %v", wv, stored), "scan: a destination was overwritten by another variable's value", false
				}
			}
		}
		sols.Close()
		if serr != nil {
			continue // an error is always admissible
		}
		if !stored.IsValid() {
			return "X stored or an error", "X missing in the map", "scan: variable missing", false
		}
		if a.Other {
			// compound / partial / unbound: nothing exact to compare with for typed destinations, except
			// that typed numeric/string/slice destinations cannot hold them
			switch c.Dest {
			case "interface{}", "string":
				continue
			}
			return "an error (the answer is " + a.Name + ")", fmt.Sprintf("nil error, stored %v", stored), "scan: a value that does not fit the destination type was stored", false
		}
		if a.Str != nil && !a.IsList && c.Dest == "string" || c15Faithful(stored, a) {
			if a.Str != nil && !a.IsList && c.Dest == "string" && stored.String() != *a.Str {
				return *a.Str, stored.String(), "scan: string destination holds different text", false
			}
			continue
		}
		if c.Dest == "string" {
			continue // any term may be rendered as text
		}
		return fmt.Sprintf("%s into %s (%s): the exact value or an error", a.Name, c.Dest, carrier), fmt.Sprintf("nil error, stored %v", stored), "scan: a silently altered value was stored into " + c.Dest, false
	}
	return "", "", "", true
}

func c15Work(w *h.W) {
	emit := func(c *c15Case, size int) {
		w.Guard(c)
		exp, act, sig, ok := c15Run(c)
		w.Unguard()
		w.Eval(1)
		w.States(1)
		w.Transitions(1)
		w.Traces(1)
		b, _ := json.Marshal(c)
		w.Nontrivial(string(b))
		w.Outcome(c.Kind + fmt.Sprint(ok))
		w.Sample(string(b))
		if !ok {
			w.Violation(sig, c, exp, act, size)
		}
	}
	// strings: all strings of length <= L over the alphabet x double_quotes x positions
	maxLen := w.Pick(2, 3)
	var strs []string
	for l := 0; l <= maxLen; l++ {
		seqs(l, len(c15Alphabet), func(idx []int) bool {
			s := ""
			for _, i := range idx {
				s += c15Alphabet[i]
			}
			strs = append(strs, s)
			return true
		})
		if l == 0 {
			strs = strs[:1]
		}
	}
	strs = append(strs, "[]", "{}", "a.", "X", "'a'", "?", "foo(X)", ":- halt.", "0'a", "\"\"", "/*", "%\n", "end_of_file", "a b", "é日", "\\n")
	for _, s := range strs {
		for _, dq := range []string{"codes", "chars", "atom", ""} {
			for pos := range c15Positions {
				if len([]rune(s)) > 1 && pos > 2 && !w.Thorough() {
					continue
				}
				if !w.Mine() {
					continue
				}
				if w.Expired() {
					return
				}
				emit(&c15Case{Kind: "string", DQ: dq, Pos: pos, Str: s}, len(s))
			}
		}
	}
	for _, v := range c15Values() {
		for _, dq := range []string{"codes", "atom"} {
			if !w.Mine() {
				continue
			}
			emit(&c15Case{Kind: "value", DQ: dq, Val: v.Name}, 1)
		}
	}
	for nph := 0; nph <= 3; nph++ {
		for na := 0; na <= 3; na++ {
			if !w.Mine() {
				continue
			}
			emit(&c15Case{Kind: "count", NPh: nph, NArg: na}, nph+na)
		}
	}
	// texts of several items with the placeholders distributed over them in every way
	items := []string{"ph(?).", "a(1).", ":- true.", "% c\n", "ph(?) :- true.", ":- dynamic(d/1).", "ph(?). ", "",
		":- set_prolog_flag(double_quotes, atom).", ":- set_prolog_flag(double_quotes, codes)."}
	for l := 0; l <= w.Pick(3, 4); l++ {
		seqs(l, len(items), func(idx []int) bool {
			text := ""
			k := 0
			for _, i := range idx {
				it := items[i]
				if strings.Contains(it, "ph(?)") {
					// the k-th placeholder; next to a string placeholder stands the literal it must behave like
					it = strings.Replace(it, "ph(?)", fmt.Sprintf("ph(%d, ?)", k), 1)
					if k%2 == 1 {
						it += fmt.Sprintf(" lit(%d, \"s%d\").", k, k)
					}
					k++
				}
				text += it + " "
			}
			if strings.Count(text, "ph(")+strings.Count(text, "a(1)") > 1 {
				// clauses of one predicate separated by other items: declared, so that the load itself is valid
				text = ":- discontiguous(ph/2). :- discontiguous(a/1). :- discontiguous(lit/2). " + text
			}
			for na := 0; na <= 3; na++ {
				if !w.Mine() {
					continue
				}
				emit(&c15Case{Kind: "text", Text: text, NArg: na}, l+na)
			}
			return true
		})
	}
	// all orders of scanning into 2..4 of the four same-named struct types
	for l := 2; l <= 4; l++ {
		seqs(l, len(c15RowFuncs), func(idx []int) bool {
			if !w.Mine() {
				return true
			}
			emit(&c15Case{Kind: "rows", Order: append([]int{}, idx...)}, l)
			return true
		})
	}
	// views of one backing array: all sequences of 1..3 of the 15 views as the arguments of one call
	nv, _ := c15Views()
	for l := 1; l <= 3; l++ {
		seqs(l, len(nv), func(idx []int) bool {
			if !w.Mine() {
				return true
			}
			emit(&c15Case{Kind: "alias", Order: append([]int{}, idx...)}, l)
			return true
		})
	}
	for _, a := range c15Answers() {
		for _, d := range c15Dests {
			if !w.Mine() {
				continue
			}
			emit(&c15Case{Kind: "scan", Val: a.Name, Dest: d}, 1)
		}
	}
}

func c15Replay(b []byte) (string, string, bool) {
	var c c15Case
	if err := json.Unmarshal(b, &c); err != nil {
		return "", err.Error(), false
	}
	exp, act, _, ok := c15Run(&c)
	return exp, act, ok
}

func init() {
	h.Register(&h.Check{
		ID:            "C15",
		Rule:          "placeholders: ALL strings of length <= L over a 26-rune alphabet of syntax-significant characters (quotes, backslash, '.', ',', brackets, '|', '%', '?', ':', '-', space, newline, NUL, multi-byte, U+10FFFF, digit) plus strings that spell Prolog syntax, x double_quotes {codes, chars, atom, default} x 6 positions (top level, argument, list element, operand of a prefix operator, twice in one term, shared through a variable); integers of every Go width at their extremes, floats incl. +-max, denormal, -0.0, float32, nested slices/arrays; unsupported Go kinds must be rejected; every (placeholder count, argument count) pair in {0..3}^2 through Query and Exec; every text of <= 3 (4) items out of 10 (facts and rules with a placeholder - a string placeholder next to the literal it must equal -, plain clauses, directives incl. ones that change double_quotes, comments, nothing) x 0..3 arguments through Exec: an error iff the counts differ, and the loaded facts hold exactly the values. Scan: 61 answer values (integers around every width boundary, floats around the float32 range, atoms, lists proper/nested/mixed, partial and improper lists, compounds, unbound, and the same lists as answers of append/findall/sort/=../length, atom_chars/atom_codes and double-quoted strings) x 16 destination types x 3 carriers (struct, map, map with a second list-valued variable); every sequence of 2..4 scans into five different function-local struct types that share their name (different layouts, a prolog tag, an unexported field, one passed by value). Distinct = case.; aliasing: all sequences of <= 3 of 15 Go values that are VIEWS of shared memory (slices of one backing array with equal and different starts and lengths, nested slices whose rows are such views, int64 and float64 elements, an independent slice with equal contents) as the arguments of one Query and of one Exec - each placeholder denotes its own value",
		Explanation:   "state = one (Go value, context) pair; transition = one Query with placeholders (the term bound to X is captured structurally and must equal the term the literal with exactly those runes denotes, so nothing in the string can have been read as syntax), or one Scan (the stored Go value must represent the answer exactly, or Scan returns an error)",
		Assumptions:   []string{"a float32 destination may hold the nearest float32 of a value that is not representable; overflow to infinity or flush to zero must be an error", "a string destination may hold the text of any term"},
		Work:          c15Work,
		Replay:        c15Replay,
		QuickDeadline: 170 * time.Second, ThoroughDeadline: 30 * time.Minute,
	})
}
