package checks

import (
	"fmt"
	"time"

	"verif/h"
	"verif/ref"
)

// C11 — findall/bagof/setof collect exactly the solutions, as copies, grouped by witness.

// witness values of the facts t(Index, Y, Z); A, B are clause-local variables, so witnesses can be
// ground, partially bound, variants of each other (A-B vs B-A) or non-variants that a one-way
// matching would confuse (A-A vs A-B).
var c11Vals = []string{"a", "b", "A", "B", "f(A)"}

var c11Templates = []string{"X", "X-Y", "f(X, Z)", "c", "Y"}
var c11Quants = []string{"%s", "Y^%s", "Z^%s", "Y^Z^%s", "(Y-Z)^%s"}
var c11Goals = []string{"t(X, Y, Z)", "(t(X, Y, Z) ; t(X, Z, Y))", "(t(X, Y, Z), X > 1)"}
// the last three: the instances argument is itself a free variable of the goal, the template variable, or holds one
var c11Instances = []string{"S", "[]", "[_|_]", "[E]", "[E1, E2|T]", "Y", "X", "[Y|_]"}

func c11Work(w *h.W) {
	c11CountSweep(w)
	c11Repr(w)
	nv := len(c11Vals)
	maxFacts := w.Pick(2, 3)
	type fact struct{ y, z int }
	var progs [][]fact
	for n := 0; n <= maxFacts; n++ {
		seqs(2*n, nv, func(idx []int) bool {
			var p []fact
			for i := 0; i < n; i++ {
				p = append(p, fact{idx[2*i], idx[2*i+1]})
			}
			progs = append(progs, p)
			return true
		})
		if n == 0 {
			progs = progs[:1]
		}
	}
	if !w.Thorough() {
		// quick: three facts over a reduced witness domain {a, A, B}
		red := []int{0, 2, 3}
		seqs(6, len(red), func(idx []int) bool {
			var p []fact
			for i := 0; i < 3; i++ {
				p = append(p, fact{red[idx[2*i]], red[idx[2*i+1]]})
			}
			progs = append(progs, p)
			return true
		})
	}
	for _, p := range progs {
		if !w.Mine() {
			continue
		}
		if w.Expired() {
			return
		}
		cls := []T{rd(":- dynamic(t/3)")}
		for i, f := range p {
			cls = append(cls, rd("t("+string(rune('1'+i))+", "+c11Vals[f.y]+", "+c11Vals[f.z]+")"))
		}
		pc := &h.ProgCase{Budget: 4000, Steps: []h.ProgStep{h.Consult(cls...)}}
		for _, pred := range []string{"findall", "bagof", "setof"} {
			for _, tmpl := range c11Templates {
				for gi, g := range c11Goals {
					for qi, q := range c11Quants {
						if pred == "findall" && qi > 0 {
							continue
						}
						if gi > 0 && qi > 1 {
							continue
						}
						for ii, inst := range c11Instances {
							if (gi > 0 || qi > 2) && ii > 1 {
								continue
							}
							goal := sprintf(q, g)
							st := h.Query(rd(pred+"("+tmpl+", "+goal+", "+inst+")"), 12)
							st.Multiset = pred != "findall"
							pc.Steps = append(pc.Steps, st)
						}
					}
				}
			}
		}
		// nesting
		for _, q := range []string{
			"findall(X-L, bagof(Z, t(X, Y, Z), L), S)",
			"bagof(X-L, setof(Z, Y^t(X, Y, Z), L), S)",
			"setof(Y-L, bagof(X, Z^t(X, Y, Z), L), S)",
			"bagof(X, t(X, Y, Z), S), Y = a",
			"Y = a, bagof(X, t(X, Y, Z), S)",
			"Z = Y, bagof(X, t(X, Y, Z), S)",
			"Y = Q, bagof(X, Q^t(X, Y, Z), S)",
			"S = Y, bagof(X, t(X, Y, Z), S)",
			"Y = S, setof(X, t(X, Y, Z), S)",
			"S = Z, bagof(X, Y^t(X, Y, Z), S), S = [_|_]",
			"P = Y-Z, bagof(X, P^t(X, Y, Z), S)",
			"findall(X, (t(X, Y, Z), findall(W, t(W, _, _), L), L = [_|_]), S)",
			"findall(X-L, (t(X, _, _), findall(W-X, t(W, _, _), L)), S)",
			"findall(S1, bagof(X, t(X, Y, Z), S1), S)",
			"findall(X-Y-Z, t(X, Y, Z), S), findall(X-L, (t(X, _, _), findall(W, (t(W, _, _), W >= X), L)), S2)",
		} {
			st := h.Query(rd(q), 12)
			st.Multiset = true
			pc.Steps = append(pc.Steps, st)
		}
		runProgCase(w, "allsol", pc, len(p))
	}
}

// (b) one witness in several internal representations: the same list as a literal, as a double-quoted
// string, as the output of atom_chars/2, atom_codes/2, append/3, findall/3 - in every order of the facts.
func c11Repr(w *h.W) {
	reprs := []string{
		"Y = [a, b, c]", "Y = \"abc\"", "atom_chars(abc, Y)", "append([a], [b, c], Y)", "findall(E, member(E, [a, b, c]), Y)", "Y = [a|T], T = \"bc\"",
		"Y = [a, b, d]", "Y = \"abd\"", "Y = f(\"abc\")", "Y = f([a, b, c])", "atom_codes(abc, Y)", "Y = [97, 98, 99]", "Y = []", "Y = \"\"", "Y = [z|\"ab\"]", "Y = [z, a, b]",
		"Y = \"日本\"", "Y = ['日', '本']", "atom_chars('日本', Y)", "Y = ['日'|T], T = \"本\"",
	}
	n := len(reprs)
	maxFacts := w.Pick(3, 4)
	for k := 2; k <= maxFacts; k++ {
		seqs(k, n, func(idx []int) bool {
			if !w.Mine() {
				return true
			}
			if w.Expired() {
				return false
			}
			cls := []T{}
			for i, r := range idx {
				vars := map[string]*ref.Var{}
				cls = append(cls, rule(rdv(fmt.Sprintf("t(%d, Y)", i+1), vars), rdv(reprs[r], vars)))
			}
			pc := &h.ProgCase{DQ: "chars", Budget: 4000, Steps: []h.ProgStep{h.Consult(cls...)}}
			for _, q := range []string{"bagof(X, t(X, Y), L)", "setof(X, t(X, Y), L)", "bagof(X-Y, t(X, Y), L)", "setof(Y, X^t(X, Y), L)", "findall(X-Y, t(X, Y), L)",
				"bagof(X, (t(X, Y), Z = Y), L)", "bagof(X, W^(t(X, W), Y = g(W, W)), L)"} {
				st := h.Query(rd(q), 12)
				st.Multiset = true
				pc.Steps = append(pc.Steps, st)
			}
			runProgCase(w, "allsol-repr", pc, k)
			return true
		})
	}
}

// (c) sweep of the NUMBER of solutions 0..80 (200): facts whose witnesses cycle through ground terms,
// variants of each other and neighbours that a sort by standard order would interleave
func c11CountSweep(w *h.W) {
	patterns := [][]string{
		{"g(_, 2)", "g(_, 1)", "g(_, 2)"},
		{"a", "b", "a", "c"},
		{"f(_)", "f(_)", "f(1)"},
		{"A-a", "B-b", "C-a"},
		{"[_|x]", "[_|y]", "\"ab\"", "[a, b]"},
		// witnesses that hold '$VAR'(N) as ordinary data next to witnesses with variables in those places
		{"'$VAR'(0)", "_", "'$VAR'(0)", "'$VAR'(1)"},
		{"f('$VAR'(0), '$VAR'(1))", "f(_, _)", "f(A, A)", "f('$VAR'(1), '$VAR'(0))"},
		{"'_G1'", "_", "'_'", "'A'"},
	}
	maxN := w.Pick(80, 200)
	for pi, pat := range patterns {
		for n := 0; n <= maxN; n++ {
			if n > 12 && n%4 != 1 && !(n >= 60 && n <= 70) && !(n >= 124 && n <= 132) && !w.Thorough() {
				continue // quick: every 4th size, all sizes around 64 and 128
			}
			if !w.Mine() {
				continue
			}
			if w.Expired() {
				return
			}
			cls := []T{rd(":- dynamic(t/2)")}
			for i := 0; i < n; i++ {
				cls = append(cls, rd(fmt.Sprintf("t(%d, %s)", i, pat[i%len(pat)])))
			}
			pc := &h.ProgCase{DQ: "chars", Budget: 400000, Steps: []h.ProgStep{h.Consult(cls...)}}
			for _, q := range []string{"bagof(X, t(X, Y), L)", "setof(X, t(X, Y), L)", "bagof(X-Z, t(X, Y-Z), L)", "findall(X-Y, t(X, Y), L)", "bagof(X, t(X, g(Y, Z)), L)"} {
				st := h.Query(rd(q), 12)
				st.Multiset = true
				pc.Steps = append(pc.Steps, st)
			}
			runProgCase(w, "allsol-count", pc, n+pi)
		}
	}
}

func sprintf(f, a string) string {
	out := ""
	for i := 0; i < len(f); i++ {
		if f[i] == '%' && i+1 < len(f) && f[i+1] == 's' {
			out += a
			i++
			continue
		}
		out += string(f[i])
	}
	return out
}

var _ = ref.Nil

func init() {
	h.Register(&h.Check{
		ID: "C11",
		Rule: "all fact bases t(Index, Y, Z) of <= N facts whose witness arguments range over {a, b, A, B, f(A)} (clause-local variables: ground, partially bound, variant and non-variant witnesses, duplicates) x {findall, bagof, setof} x 5 templates x 3 goal shapes (plain, disjunctive, filtered) x every ^-quantification of {Y, Z} (incl. nested and compound) x 8 instance arguments (unbound, [], partial lists, a free variable of the goal, the template variable, a list holding a free variable) + 15 nested / pre-bound / aliased-quantifier queries; (b) representations: all sequences of 2..3 (4) facts whose witness is one of 20 constructions of the same and of neighbouring lists (ASCII and non-ASCII) (literal, double-quoted string, atom_chars/atom_codes output, append/findall output, string tail, nested in a compound) x 7 bagof/setof/findall queries; (c) a sweep of the number of solutions 0..80 (200; quick: every 4th size and all sizes around 64 and 128) for 8 cyclic witness patterns (ground, variants of each other, neighbours in standard order, '$VAR'(N) and variable-like atoms as data next to variables) x 5 queries. Non-trivial = the reference yields an answer or error; distinct = program + query text.",
		Explanation: "state = one fact base in a fresh real interpreter; transition = one all-solutions query run to exhaustion; findall answers compared as sequences, bagof/setof answers (one per witness class) as a multiset since group order is unconstrained; the reference implements ISO 8.10 literally (free variables per 7.1.1.4, variant classes, witness unification, sort + dedupe for setof)",
		Assumptions: []string{"reference ISO 8.10 algorithm in ref/solve (self-checked against the ISO examples)", "cases where a setof/3 result depends on the order of two distinct unbound variables are inconclusive"},
		Work:        c11Work,
		Replay:      h.ProgReplay,
		QuickDeadline: 150 * time.Second, ThoroughDeadline: 25 * time.Minute,
	})
}
