package checks

import (
	"fmt"
	"strings"
	"time"

	"verif/h"
	"verif/ref"
)

// C17 — DCG translation preserves the language and the threading of the remainder.

const c17Base = `
t(a) --> [a].
t(b) --> [b], [b].
t(X) --> [c], {X = c}.
u --> [a].
u --> [a, b].
u --> [].
pb, [a] --> [b].
pb2, [a, b] --> [b].
pb3, "ba" --> [a].
v(X, Y) --> [X], [Y].
`

var c17Items = []string{
	"[]", "[a]", "[b]", "[a, b]", "\"ab\"", "\"日a\"", "['日']",
	"t(X)", "u", "pb", "v(X, Y)", "pb2", "pb3",
	"{X = a}", "{true}", "{fail}", "{Y = X}",
	"\\+ [a]", "\\+ u", "\\+ pb", "\\+ t(X)",
	// negated terminal lists that hold variables: whatever the failed lookahead bound must be gone afterwards
	"\\+ [X, b]", "\\+ [X, Y, a]", "\\+ [a, X]",
	"!",
	"call(t, X)", "call(u)", "call(v, X, Y)", "call(v(X), Y)",
	"([a] ; [b])", "([a] | [b, a])", "(u ; [])", "([a], [b])", "(([a], [b]), [a])", "([a], (u ; [b]))",
	"([a] -> [b] ; [a])", "(u -> [] ; [b])", "([a] -> [b])", "(u -> [a] ; [])", "(\\+ [a] -> [b] ; [a])",
}

func c17Inputs(maxLen int) []string {
	var out []string
	for _, l := range ref.Lists([]T{A("a"), A("b")}, maxLen) {
		out = append(out, ref.Text(ref.List(l...)))
	}
	out = append(out, "[c]", "[c, a]", "[a, c]", "[b, b, a]", "['日']", "['日', a]", "[a, '日', a]", "['日', a, b]")
	return out
}

func c17Case(rules []T, viaExpand bool, inputs []string) *h.ProgCase {
	pc := &h.ProgCase{DQ: "chars", Budget: 8000, Independent: false}
	base := rdAll(c17Base)
	if viaExpand {
		// every rule through expand_term/2 + assertz/1 (assertz creates the dynamic procedures)
		for _, r := range append(append([]T{}, base...), rules...) {
			pc.Steps = append(pc.Steps, h.ExpandAssert(r))
		}
	} else {
		pc.Steps = append(pc.Steps, h.Consult(append(append([]T{}, base...), rules...)...))
	}
	for _, in := range inputs {
		pc.Steps = append(pc.Steps, h.Query(rd("phrase(s(X, Y), "+in+")"), 12))
		pc.Steps = append(pc.Steps, h.Query(rd("phrase(s(X, Y), "+in+", R)"), 12))
	}
	pc.Steps = append(pc.Steps, h.Query(rd("phrase(s(X, Y), L)"), 8), h.Query(rd("phrase(s(X, Y), L, [z])"), 8), h.Query(rd("phrase(s(a, Y), [a|T], R)"), 8))
	return pc
}

func c17Work(w *h.W) {
	c17RuntimeWork(w)
	c17BoundVarWork(w)
	c17NestedWork(w)
	inputs := c17Inputs(w.Pick(3, 4))
	n := len(c17Items)
	maxLen := w.Pick(2, 3)
	seqBody := func(idx []int, vars map[string]*ref.Var) T {
		var its []T
		for _, i := range idx {
			its = append(its, rdv(c17Items[i], vars))
		}
		return conj(its...)
	}
	for l := 1; l <= maxLen; l++ {
		seqs(l, n, func(idx []int) bool {
			for variant := 0; variant < 9; variant++ {
				if !w.Mine() {
					continue
				}
				if w.Expired() {
					return false
				}
				vars := map[string]*ref.Var{}
				body := seqBody(idx, vars)
				head := rdv("s(X, Y)", vars)
				var rules []T
				switch variant {
				case 0: // the enumerated rule followed by a second rule (so that a cut is visible)
					rules = []T{Cm("-->", head, body), rd("s(z, z) --> [b]")}
				case 1: // the same, loaded through expand_term/2 + assertz/1
					rules = []T{Cm("-->", head, body), rd("s(z, z) --> [b]")}
				case 2: // with push-back
					rules = []T{Cm("-->", Cm(",", head, ref.List(A("a"))), body), rd("s(z, z) --> [b]")}
				case 4, 5, 6, 7, 8: // push-back lists of every shape: several terminals, a string, empty, a head variable
					if l > 2 {
						continue
					}
					pb := []string{"[a, b]", "\"ba\"", "[]", "[b, a, a]", "[X, b]"}[variant-4]
					rules = []T{Cm("-->", Cm(",", head, rdv(pb, vars)), body), rd("s(z, z) --> [b]")}
				case 3: // as a top-level alternative
					if l > 2 {
						continue
					}
					rules = []T{Cm("-->", head, Cm(";", body, rdv("([b], {X = alt})", vars))), rd("s(z, z) --> [a, a]")}
				}
				pc := c17Case(rules, variant == 1, inputs)
				runProgCase(w, "dcg", pc, l)
			}
			return true
		})
	}
}

// cuts nested inside a parenthesised alternation or if-then-else of a grammar body (the translation
// runs inner disjunctions through call/1, which makes such a cut local)
var c17NestedCut = []string{
	"([a], ! ; [])", "([a], ! ; [b])", "(! ; [a])", "([a] -> ! ; [b])", "(u, ! ; [a])", "([a] ; [b], !)", "(([a], !) ; [])",
}

// c17NotCommitted recognises the one known shape: the implementation gives the reference's answers in
// order and then goes on with alternatives that the cut should have removed.
func c17NotCommitted(r *h.StepResult) string {
	if r.Impl.Status == "error" || r.RefState == "error" || len(r.Impl.Answers) <= len(r.RefAns) {
		return ""
	}
	for i, a := range r.RefAns {
		if r.Impl.Answers[i] != a {
			return ""
		}
	}
	return "the nested cut does not commit the rule: the reference's answers, then answers of alternatives the cut removes"
}

// non-terminals built at run time (=../2, functor/3 + arg unification, copy_term/2) of every arity 0..16, the SAME
// term instance used several times in one grammar body
func c17RuntimeWork(w *h.W) {
	for n := 0; n <= w.Pick(16, 24); n++ {
		if !w.Mine() {
			continue
		}
		var hs, zs []string
		for i := 0; i < n; i++ {
			hs = append(hs, fmt.Sprintf("A%d", i))
			zs = append(zs, "0")
		}
		head := "q(" + strings.Join(append(append([]string{}, hs...), "[x|S]", "S"), ", ") + ")"
		head2 := "q(" + strings.Join(append(append([]string{}, hs...), "[y, y|S]", "S"), ", ") + ")"
		cls := []T{rd(head), rd(head2)}
		zl := "[" + strings.Join(zs, ", ") + "]"
		builds := []string{
			"G =.. [q|" + zl + "]",
			fmt.Sprintf("length(Zs, %d), G =.. [q|Zs]", n),
			fmt.Sprintf("functor(G, q, %d)", n),
			"G0 =.. [q|" + zl + "], copy_term(G0, G)",
		}
		if n == 0 {
			builds = []string{"G = q"}
		}
		bodies := []string{"(G, [b], G)", "((G ; [c]), G)", "(\\+ G, [b] ; G, G)", "(G, G, G)", "(call(G), G)", "([b], G)", "(G -> G ; [])"}
		pc := &h.ProgCase{DQ: "chars", Budget: 20000, Steps: []h.ProgStep{h.Consult(cls...)}}
		for _, b := range builds {
			for _, body := range bodies {
				for _, q := range []string{"phrase(" + body + ", L)", "phrase(" + body + ", [x, b, x])", "phrase(" + body + ", [x, b|T], R)", "phrase(" + body + ", [k])"} {
					st := h.Query(rd(b+", "+q), 10)
					st.Vars = []string{"L", "T", "R"}
					pc.Steps = append(pc.Steps, st)
				}
			}
		}
		runProgCase(w, "dcg-runtime-nonterminal", pc, n)
	}
}

// sub-bodies reached through variables that are bound when the body is translated: control constructs (cut,
// if-then, negation, terminals) behind a variable are translated in place, exactly as if written there
func c17BoundVarWork(w *h.W) {
	builds := []string{"X = !", "X = ([a], !)", "X = ([a] -> [b])", "X = (\\+ [b])", "X = []", "X = [a]", "X = ([a] ; [b])", "X = (!, [a])", "X = {true}", "X = call(u)"}
	bodies := []string{"([a], X ; [a, b])", "(X | [a, c])", "(X ; [b])", "(X, [b])", "([a], X)", "(X, X)", "(\\+ X, [a] ; [b])", "(u, X ; [])"}
	cls := rdAll("u --> [a]. u --> [a, b].")
	for bi, b := range builds {
		if !w.Mine() {
			continue
		}
		pc := &h.ProgCase{DQ: "chars", Budget: 20000, Steps: []h.ProgStep{h.Consult(cls...)}}
		for _, body := range bodies {
			for _, q := range []string{"phrase(" + body + ", L)", "phrase(" + body + ", [a, b], R)", "phrase(" + body + ", [a, c], R)", "phrase(" + body + ", [a|T], R)", "phrase(" + body + ", [b])"} {
				st := h.Query(rd(b+", "+q), 10)
				st.Vars = []string{"L", "T", "R"}
				pc.Steps = append(pc.Steps, st)
			}
		}
		runProgCase(w, "dcg-bound-variable", pc, bi)
	}
}

func c17NestedWork(w *h.W) {
	inputs := c17Inputs(w.Pick(3, 4))
	tails := []string{"", "[b]", "t(X)", "{Y = k}", "u"}
	for _, nc := range c17NestedCut {
		for _, before := range tails {
			for _, after := range tails {
				if !w.Mine() {
					continue
				}
				vars := map[string]*ref.Var{}
				var its []T
				if before != "" {
					its = append(its, rdv(before, vars))
				}
				its = append(its, rdv(nc, vars))
				if after != "" {
					its = append(its, rdv(after, vars))
				}
				// the alternation is never the whole body: followed (or preceded) by {true} if need be
				if len(its) == 1 {
					its = append(its, rdv("{true}", vars))
				}
				rules := []T{Cm("-->", rdv("s(X, Y)", vars), conj(its...)), rd("s(z, z) --> [a]"), rd("s(w, w) --> [a, b]")}
				runProgCaseF(w, "dcg-nested-cut", c17NotCommitted, c17Case(rules, false, inputs), len(its))
			}
		}
	}
}

var _ = strings.Join

func init() {
	h.Register(&h.Check{
		ID: "C17",
		Rule: "all grammars whose rule s(X,Y) --> Body ranges over every sequence of <= L body constructs out of 40 (terminal lists, a non-ASCII string and terminal, strings, non-terminals with arguments, {}/1, \\+, !, call//N with extra arguments, ;, |, nested sequences, if-then(-else), a push-back non-terminal) over fixed non-left-recursive sub-grammars t//1, u//0, pb//0, pb2//0, pb3//0 (push-back of one terminal, of two, of a string), v//2; each in 9 variants (followed by a second rule; loaded through expand_term/2 + assertz/1; with a push-back head of one terminal, of two, of a string, empty, of three, with a head variable; as one of two top-level alternatives) x all input lists over {a,b} of length <= N (plus lists with c) through phrase/2 and phrase/3 (all remainders), and generation mode with unbound list / given remainder. plus non-terminals BUILT AT RUN TIME (=../2, functor/3, copy_term/2) of every arity 0..16 (24), the same term instance used several times in 7 bodies x 4 phrase/2,3 queries; plus sub-bodies behind variables bound at translation time (10 values: cut, sequences with cut, if-then, negation, terminals, alternation, {}//1, call//1) in 8 bodies x 5 queries; plus 7 bodies with a cut NESTED inside a parenthesised alternation / if-then-else x 5 goals before x 5 goals after (known finding: such a cut is local here). Non-trivial = the reference yields an answer or error.",
		Explanation: "state = one grammar loaded into a fresh real interpreter; transition = one phrase/2,3 query run to exhaustion; compared with a DIRECT interpreter of grammar bodies over difference lists inside the reference machine (sequence threads the remainder, alternation is a choice, {} calls, \\+ consumes nothing, ! commits to the rule, push-back re-prepends) - which never translates a rule - on success/failure, argument bindings, remainder and answer order",
		Assumptions: []string{"'!' occurs only as a direct element of a rule's top-level sequence or alternative (as C03)", "double_quotes = chars so that \"ab\" denotes [a,b]"},
		Work:        c17Work,
		Replay:      h.ProgReplay,
		QuickDeadline: 170 * time.Second, ThoroughDeadline: 30 * time.Minute,
	})
}
