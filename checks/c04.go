package checks

import (
	"time"

	"verif/h"
	"verif/ref"
)

// C04 — throw/1 unwinds to the innermost still-executing catch/3, undoing bindings.

const c04Base = `
g(X) :- put_char(a), X = 1.
g(X) :- put_char(b), X = 2.
g(X) :- put_char(c), X = 3.
d(X) :- put_char(d), X = 1.
thrower(X) :- put_char(t), throw(b(X)).
pick(X) :- g(X), X > 1.
safe(X) :- catch(g(X), _, (put_char(r), X = caught)).
deep(X) :- catch(thrower(X), a, put_char(i)).
guard(G, P) :- catch(G, P, throw(P)).
guard2(G, P, R) :- catch(G, P, R).
same(A, A).
`

var c04Items = []string{
	// generators, tests, control
	"g(X)", "d(Y)", "X > 1", "!", "fail", "put_char(k)",
	// throws
	"throw(a)", "throw(b(X))", "thrower(X)", "Z = 5, throw(b(Z))",
	// balls that are / contain lists and partial lists of variables bound since the catch was called
	"throw(l([X]))", "Z = 5, throw([Z, X])", "Z = [X], throw(b([Y|Z]))",
	"catch((g(Y), Y > 1, throw([Y, Y])), [W|_], (put_char(r), Y = W))",
	// balls held in other internal representations: strings, answers of atom_chars/3, append/3, findall/3
	"catch((atom_chars(abc, Q), throw(Q)), [a|W], (put_char(r), Y = W))",
	"catch((append([X], [k|V], Q), throw(s(Q))), s([_, k|W]), (put_char(r), Y = W))",
	"catch((findall(E, g(E), Q), throw(Q)), [W|_], (put_char(r), Y = W))",
	"atom_codes(ab, Q), throw(c(Q, X))",
	"catch((atom_chars('日本', Q), throw(Q)), ['日'|W], (put_char(r), Y = W))",
	// the catcher (and the recovery) reach catch/3 as variables of a clause that are bound already
	"catch(guard(throw(c2(1, _)), c2(_, 2)), C2, (put_char(r), Y = C2))", "guard(throw(c2(X, _)), c2(_, 2))",
	"P = c2(_, 2), catch(throw(c2(1, _)), P, throw(P))", "P = b(W), catch(thrower(Y), P, (put_char(r), Y = P))",
	"guard2(thrower(X), b(V), (put_char(r), Y = V))", "guard(thrower(X), a)",
	// the catcher is an unbound variable that is aliased to another one, in either direction, when catch/3 is called
	"C = Y, catch(throw(a), C, put_char(r))", "Y = C, catch(throw(a), C, put_char(r))", "same(C, Y), catch(thrower(X), C, put_char(r))",
	"C = Y0, catch(atom_length(N, _), C, put_char(e)), Y0 = error(Y, _)", "C = Y, catch((g(Z), Z > 1, throw(b(Z))), C, put_char(r)), Y == b(2)",
	// built-in errors and unknown procedures
	"atom_length(N, _)", "X > foo", "undefined_proc(X)",
	// catch that exits deterministically / with choice points / after a retry
	"catch(d(Y), _, put_char(r))", "catch(g(Y), _, put_char(r))", "safe(Y)",
	"catch((g(Y), Y > 1, throw(b(Y))), b(W), put_char(r))",
	"catch((Y = 1, throw(e)), e, put_char(r))",
	"catch(throw(a), b, put_char(r))", "catch(throw(a), a, put_char(r))", "catch(throw(a), C, (put_char(r), Y = C))",
	"catch(catch(throw(a), b, put_char(i)), a, put_char(o))",
	"catch(catch(throw(a), a, throw(c)), c, put_char(o))",
	"catch(deep(Y), b(V), (put_char(o), Y = V))",
	"catch(thrower(Y), b(V), Y = got(V))",
	"catch(atom_length(N, _), error(E, _), (put_char(e), Y = E))",
	"catch(undefined_proc(1), error(existence_error(K, _), _), Y = K)",
	"catch((g(Y), !, throw(x)), x, put_char(r))",
	"\\+ catch(throw(n), m, true)", "\\+ throw(n)",
	"findall(Z, (g(Z), Z > 2, throw(f(Z))), L)", "catch(findall(Z, (g(Z), Z > 1, throw(f(Z))), L), f(Y), put_char(r))",
	"catch(pick(Y), _, put_char(r))",
}

var c04Contexts = []string{
	"t(X, Y)",
	"catch(t(X, Y), B, put_char(q))",
	"catch(t(X, Y), b(B), put_char(q))",
	"findall(X-Y, t(X, Y), R)",
	"catch(findall(X-Y, t(X, Y), R), B, true)",
	"g(A), t(X, Y)",
	"catch(t(X, Y), _, true), X == 2, throw(late(Y))",
	"catch((t(X, Y), X > 1), B, true)",
	"\\+ t(X, Y)",
}

func c04Work(w *h.W) {
	n := len(c04Items)
	maxLen := w.Pick(3, 3)
	for l := 1; l <= maxLen; l++ {
		seqs(l, n, func(idx []int) bool {
			if !w.Mine() {
				return true
			}
			if w.Expired() {
				return false
			}
			vars := map[string]*ref.Var{}
			var body []T
			for _, i := range idx {
				body = append(body, rdv(c04Items[i], vars))
			}
			cls := append(rdAll(c04Base), rule(rdv("t(X, Y)", vars), body...), rd("t(8, 8) :- put_char(y)"))
			pc := &h.ProgCase{Budget: 6000, Steps: []h.ProgStep{h.Consult(cls...)}}
			for _, c := range c04Contexts {
				pc.Steps = append(pc.Steps, h.Query(rd(c), 40))
			}
			// the same body directly as a query, as a directive and as an initialization goal:
			// without a catch/3 the returned Go error must carry the ball
			pc.Steps = append(pc.Steps, h.Query(conj(body...), 40), h.Directive(rd("t(_, _)")), h.Initialization(rd("t(_, _)")))
			runProgCase(w, "catch", pc, l)
			return true
		})
	}
}

func init() {
	h.Register(&h.Check{
		ID: "C04",
		Rule: "all catch/throw skeletons: predicate t/2 whose clause body is every sequence of <= L items over 53 item shapes (generators tracing entry/redo, cut, user balls sharing variables with the goal, built-in errors, unknown procedures, catch/3 that exits deterministically or with choice points, nested catches with matching / non-matching catchers, rethrow from Recovery, catchers that are unbound variables aliased to another variable in either direction, catch inside \\+ and findall, cut inside the protected goal) run in 9 contexts (uncaught, caught outside with matching/non-matching catcher, inside findall, after older choice points, throw after the catch exited, \\+) plus the body as a query, as a directive and as an initialization goal (the Go error must carry the ball). Non-trivial = the reference yields an answer or error.",
		Explanation: "state = one skeleton program in a fresh real interpreter; transition = one context query / directive; compared: answer sequence, output trace (which goals ran, which recoveries ran), and the final error term (formal part; the context argument is implementation defined)",
		Assumptions: []string{"reference machine ref/solve: catch frames are choice points with a trailed 'active' flag (deactivated on exit of the goal, re-activated by backtracking into it), ball copied at throw time, bindings undone to the catch's trail mark (ISO 7.8.9; self-checked against the ISO examples)"},
		Work:        c04Work,
		Replay:      h.ProgReplay,
		QuickDeadline: 120 * time.Second, ThoroughDeadline: 20 * time.Minute,
	})
}
