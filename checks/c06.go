package checks

import (
	"bytes"
	"encoding/json"
	"fmt"
	"math"
	"strings"
	"time"

	"github.com/ichiban/prolog"

	"verif/h"
	"verif/ref"
)

// C06 — text written by writeq/write_canonical reads back as the same term.
// Terms are BUILT without the reader (atoms through atom_codes/2 with a placeholder code list,
// numbers through placeholders, compounds through =../2), written to the host writer, and the text
// followed by " ." is read with read_term/2 from the host reader of the same interpreter (same
// operator table and flags).

type c06Case struct {
	Term   *ref.JTerm `json:"term,omitempty"`
	Writer string     `json:"writer"`
	DQ     string     `json:"double_quotes,omitempty"`
	Ops    []string   `json:"ops,omitempty"` // op/3 goals applied first
	Number bool       `json:"number,omitempty"`
	Via    string     `json:"via,omitempty"` // number_codes / number_chars
	Build  string     `json:"build,omitempty"` // goals that build the term in variable T0 (representation family)
}

var c06Writers = map[string]string{
	"writeq":          "writeq(T)",
	"write_canonical": "write_canonical(T)",
	"quoted":          "write_term(T, [quoted(true)])",
	"quoted-ignore":   "write_term(T, [quoted(true), ignore_ops(true)])",
}

type refillReader struct{ buf bytes.Buffer }

func (r *refillReader) Read(p []byte) (int, error) { return r.buf.Read(p) }

type c06Env struct {
	p   *prolog.Interpreter
	in  *refillReader
	out *bytes.Buffer
	dq  string
	ops []string
}

// renew replaces the interpreter (after a failed read the stream's buffer may still hold the rest
// of the rejected text, which must not leak into the next round trip)
func (e *c06Env) renew() {
	if n, err := c06New(e.dq, e.ops); err == nil {
		*e = *n
	}
}

func c06New(dq string, ops []string) (*c06Env, error) {
	e := &c06Env{in: &refillReader{}, out: &bytes.Buffer{}, dq: dq, ops: ops}
	e.p = prolog.New(e.in, e.out)
	if dq != "" {
		if err := e.p.QuerySolution("set_prolog_flag(double_quotes, " + dq + ").").Err(); err != nil {
			return nil, err
		}
	}
	for _, o := range ops {
		if err := e.p.QuerySolution(o + ".").Err(); err != nil {
			return nil, fmt.Errorf("%s: %v", o, err)
		}
	}
	return e, nil
}

// build returns goals that construct t in variable name, with placeholder arguments
func c06Build(t ref.Term, n *int, vars map[*ref.Var]string) (goals []string, name string, args []interface{}) {
	fresh := func() string { *n++; return fmt.Sprintf("B%d", *n) }
	switch x := ref.Deref(t).(type) {
	case ref.Atom:
		name = fresh()
		codes := []int{}
		for _, r := range string(x) {
			codes = append(codes, int(r))
		}
		return []string{"atom_codes(" + name + ", ?)"}, name, []interface{}{codes}
	case ref.Int:
		name = fresh()
		return []string{name + " = ?"}, name, []interface{}{int64(x)}
	case ref.Flt:
		name = fresh()
		return []string{name + " = ?"}, name, []interface{}{float64(x)}
	case *ref.Var:
		if s, ok := vars[x]; ok {
			return nil, s, nil
		}
		s := fmt.Sprintf("U%d", len(vars))
		vars[x] = s
		return nil, s, nil
	case *ref.Cmp:
		if x.F == "." && len(x.Args) == 2 {
			g1, h1, a1 := c06Build(x.Args[0], n, vars)
			g2, t2, a2 := c06Build(x.Args[1], n, vars)
			name = fresh()
			goals = append(append(g1, g2...), name+" = ["+h1+"|"+t2+"]")
			return goals, name, append(a1, a2...)
		}
		gf, f, af := c06Build(ref.Atom(x.F), n, vars)
		goals, args = gf, af
		names := []string{f}
		for _, a := range x.Args {
			g, nm, aa := c06Build(a, n, vars)
			goals = append(goals, g...)
			args = append(args, aa...)
			names = append(names, nm)
		}
		name = fresh()
		goals = append(goals, name+" =.. ["+strings.Join(names, ", ")+"]")
		return goals, name, args
	}
	panic("c06Build")
}

func (e *c06Env) capture(q string, v string, args ...interface{}) (ref.Term, error) {
	sols, err := e.p.Query(q, args...)
	if err != nil {
		return nil, err
	}
	defer sols.Close()
	if !sols.Next() {
		if er := sols.Err(); er != nil {
			return nil, er
		}
		return nil, fmt.Errorf("no answer")
	}
	m := map[string]h.Cap{}
	if err := sols.Scan(m); err != nil {
		return nil, err
	}
	c := m[v]
	return h.NewConv().Term(c.T, c.Env), nil
}

func c06Canon(t ref.Term) string { return ref.Canon(t, ref.NewNamer()) }

// roundTrip writes t with writer and reads the text back; ok=false on a difference.
func (e *c06Env) roundTrip(t ref.Term, writer string) (text, exp, act string, ok bool) {
	n := 0
	goals, name, args := c06Build(t, &n, map[*ref.Var]string{})
	e.out.Reset()
	w := strings.ReplaceAll(c06Writers[writer], "T", name)
	q := strings.Join(append(goals, "T0 = "+name, w), ", ") + " ."
	built, err := e.capture(q, "T0", args...)
	if err != nil {
		return "", "the term can be built and written", "error: " + err.Error(), false
	}
	exp = c06Canon(built)
	if exp != c06Canon(t) {
		// the construction itself went wrong: not a round-trip matter, but never silently ignored
		return "", "built term " + c06Canon(t), exp, false
	}
	text = e.out.String()
	e.in.buf.Reset()
	e.in.buf.WriteString(text + " .\n")
	back, err := e.capture("read_term(X, []) .", "X")
	if err != nil {
		return text, exp, "the written text is not accepted by the reader: " + err.Error(), false
	}
	act = c06Canon(back)
	if act != exp {
		return text, exp, act, false
	}
	return text, exp, act, true
}

// roundTripBuilt is roundTrip for a term that goals (query text) leave in T0; want is its intended value.
func (e *c06Env) roundTripBuilt(build string, want ref.Term, writer string) (text, exp, act string, ok bool) {
	e.out.Reset()
	w := strings.ReplaceAll(c06Writers[writer], "T", "T0")
	built, err := e.capture(build+", "+w+" .", "T0")
	if err != nil {
		return "", "the term can be built and written", "error: " + err.Error(), false
	}
	exp = c06Canon(built)
	if exp != c06Canon(want) {
		return "", "built term " + c06Canon(want), exp, false
	}
	text = e.out.String()
	e.in.buf.Reset()
	e.in.buf.WriteString(text + " .\n")
	back, err := e.capture("read_term(X, []) .", "X")
	if err != nil {
		return text, exp, "the written text is not accepted by the reader: " + err.Error(), false
	}
	if act = c06Canon(back); act != exp {
		return text, exp, act, false
	}
	return text, exp, act, true
}

// (5) the same abstract list held in every internal representation (built through each construction
// recipe), bare and inside every kind of context, through every writer
func c06Representations(w *h.W, e *c06Env) {
	ctxs := []struct {
		goal string
		mk   func(l ref.Term) ref.Term
	}{
		{"T0 = L", func(l ref.Term) ref.Term { return l }},
		{"T0 = f(L)", func(l ref.Term) ref.Term { return ref.C("f", l) }},
		{"T0 = [L, z]", func(l ref.Term) ref.Term { return ref.List(l, ref.Atom("z")) }},
		{"T0 = [z|L]", func(l ref.Term) ref.Term { return ref.C(".", ref.Atom("z"), l) }},
		{"T0 = L - L", func(l ref.Term) ref.Term { return ref.C("-", l, l) }},
		{"T0 = - L", func(l ref.Term) ref.Term { return ref.C("-", l) }},
		{"T0 = {L}", func(l ref.Term) ref.Term { return ref.C("{}", l) }},
		{"T0 = (a :- L)", func(l ref.Term) ref.Term { return ref.C(":-", ref.Atom("a"), l) }},
	}
	elems := []T{A("a"), A("b"), I(97), A("B c"), A("[]"), I(-1), A("日"), I(26085)}
	var lists [][]T
	for n := 0; n <= w.Pick(3, 4); n++ {
		seqs(n, len(elems), func(idx []int) bool {
			l := make([]T, n)
			for i, j := range idx {
				l[i] = elems[j]
			}
			lists = append(lists, l)
			return true
		})
	}
	for _, l := range lists {
		if !w.Mine() {
			continue
		}
		if w.Expired() {
			return
		}
		for _, r := range c02Recipes() {
			goals := r.build(l, V("L"), 1)
			if goals == nil {
				continue
			}
			var gs []string
			for _, g := range goals {
				gs = append(gs, ref.Text(g))
			}
			for _, cx := range ctxs {
				build := strings.Join(gs, ", ") + ", " + cx.goal
				want := cx.mk(ref.List(l...))
				for _, wr := range []string{"writeq", "write_canonical", "quoted-ignore"} {
					c := &c06Case{DQ: "chars", Build: build}
					w.Guard(c)
					text, exp, act, ok := e.roundTripBuilt(build, want, wr)
					if !ok {
						e.renew()
					}
					w.Unguard()
					w.Eval(1)
					w.States(1)
					w.Transitions(2)
					w.Traces(1)
					w.Nontrivial(build + wr)
					w.Outcome("repr:" + wr + fmt.Sprint(ok))
					if !ok {
						c.Term = ref.Enc(want)
						c.Writer = wr
						w.Violation("roundtrip "+wr+": a list built by recipe "+r.name+": "+c06Kind(act), c, exp+"   (written as "+fmt.Sprintf("%q", text)+")", act, len(l))
					}
				}
			}
		}
	}
}

func c06Kind(act string) string {
	switch {
	case strings.HasPrefix(act, "the written text is not accepted"):
		return "text not accepted by the reader"
	case strings.HasPrefix(act, "error"):
		return "cannot be built/written"
	}
	return "reads back as a different term"
}

// ---- term universe -----------------------------------------------------------------------------------

var c06AtomLeaves = []string{
	"a", "aB_1", "[]", "{}", "!", ";", ",", "|", "+", "-", "*", ":-", "-->", "\\", ".", "..", "/*", "%", "", "A", "_", "_a", "hello world", "\n", "it's", "\\\\", "é", "日本", "∀", "1a", "0", "e", "E", "mod", "is", "dynamic", "f", "'", "\"", "`", "a.b", "[", "{}x", "?", "- ", "=..", "\t", "\x01", "ÿ", "xfx", "€", "😀", "\u00a0", "١", "a€b",
}

// one representative of every Unicode general category (the lexer and the writer each classify
// characters; any disagreement between two classifications shows on some category)
var c06CategoryChars = []string{
	"A", "a", "ǅ", "ʰ", "日", "́", "ः", "⃝", "１", "٣", "Ⅷ", "½", "‿", "‐", "（", "）", "«", "»", "¡", "∑", "€", "˅", "©", " ", " ", " ", "", "​", "", "�", "𝟘", "ß", "İ", "ı",
}

func c06CategoryAtoms() []string {
	var out []string
	for _, c := range c06CategoryChars {
		out = append(out, c, "a"+c, c+"a", "a"+c+"b", "_"+c)
	}
	return out
}

func c06Leaves(full bool) []ref.Term {
	var out []ref.Term
	atoms := c06AtomLeaves
	if full {
		atoms = append(append([]string{}, atoms...), c06CategoryAtoms()...)
	}
	if !full {
		atoms = []string{"a", "-", "[]", "hello world", "+", ",", "|"}
	}
	for _, a := range atoms {
		out = append(out, ref.Atom(a))
	}
	if full {
		for _, i := range []int64{0, 1, -1, 7, math.MinInt64, math.MaxInt64} {
			out = append(out, ref.Int(i))
		}
		for _, f := range []float64{1.0, -1.0, 0.1, 1e10, 1e-10, 5e-324, math.MaxFloat64, math.Copysign(0, -1), 0.0, 2.5, -2.5e-7, 1e22, 1e23} {
			out = append(out, ref.Flt(f))
		}
		out = append(out, V("A"), V("B"))
	} else {
		out = append(out, ref.Int(1), ref.Int(-1), ref.Flt(1.0), ref.Flt(-1.0), ref.Int(0), ref.Flt(math.Copysign(0, -1)), V("A"))
	}
	return out
}

var c06Prefix = []string{":-", "?-", "\\+", "+", "-", "\\"}
var c06Infix = []string{":-", "-->", "|", ";", "->", ",", "=", "\\=", "==", "\\==", "@<", "@=<", "@>", "@>=", "=..", "is", "=:=", "=\\=", "<", "=<", ">", ">=", ":", "+", "-", "/\\", "\\/", "*", "/", "//", "div", "rem", "mod", "<<", ">>", "**", "^"}

// constructors: apply with operands
func c06Constructors(thorough bool) []func(xs ...ref.Term) ref.Term {
	return nil
}

func c06Depth1(ops []ref.Term, inner []ref.Term, other ref.Term) []ref.Term {
	var out []ref.Term
	for _, x := range inner {
		for _, p := range c06Prefix {
			out = append(out, ref.C(p, x))
		}
		for _, f := range c06Infix {
			out = append(out, ref.C(f, x, other), ref.C(f, other, x))
		}
		out = append(out, ref.C("f", x), ref.C("f", x, other), ref.C("f", other, x, other), ref.List(x), ref.List(other, x), ref.PList(x, other), ref.C("{}", x), ref.C("foo bar", x), ref.C("[]", x), ref.C("{}", x, other),
			ref.C("-", ref.C("-", x)), ref.C("-", x, x), ref.C(",", x, x), ref.C("$VARX", x), ref.C("dynamic", x), ref.C("mod", x), ref.C("e", x, other), ref.C("+", x, ref.C("+", x, other)), ref.C("-", ref.C("-", other, x), x))
	}
	return out
}

func c06Emit(w *h.W, e *c06Env, c *c06Case, t ref.Term, writer string) {
	w.Guard(c)
	text, exp, act, ok := e.roundTrip(t, writer)
	if !ok {
		e.renew()
	}
	w.Unguard()
	w.Eval(1)
	w.States(1)
	w.Transitions(2)
	w.Traces(1)
	w.Nontrivial(exp + writer + c.DQ)
	w.Outcome(writer + fmt.Sprint(ok))
	w.Sample(fmt.Sprintf("%s  --%s-->  %q", exp, writer, text))
	if !ok {
		c.Term = ref.Enc(t)
		c.Writer = writer
		w.Violation(c06Sig(t, writer, act), c, exp+"   (written as "+fmt.Sprintf("%q", text)+")", act, ref.Size(t))
	}
}

// signature: the shape of the term (functor classes) and what went wrong
func c06HasFFFD(t ref.Term) bool {
	switch x := ref.Deref(t).(type) {
	case ref.Atom:
		return strings.ContainsRune(string(x), '\ufffd')
	case *ref.Cmp:
		if strings.ContainsRune(x.F, '\ufffd') {
			return true
		}
		for _, a := range x.Args {
			if c06HasFFFD(a) {
				return true
			}
		}
	}
	return false
}

func c06Sig(t ref.Term, writer, act string) string {
	if c06HasFFFD(t) && strings.HasPrefix(act, "the written text is not accepted") {
		return "roundtrip: an atom containing U+FFFD is written as \\xfffd\\, which the reader rejects as an invalid escape"
	}
	kind := "reads back as a different term"
	if strings.HasPrefix(act, "the written text is not accepted") {
		kind = "text not accepted by the reader"
	}
	if strings.HasPrefix(act, "error") {
		kind = "cannot be built/written"
	}
	return "roundtrip " + writer + ": " + c06Shape(t, 0) + ": " + kind
}

func c06Shape(t ref.Term, d int) string {
	switch x := ref.Deref(t).(type) {
	case ref.Atom:
		return "atom" + atomClass(string(x))
	case ref.Int:
		if x < 0 {
			return "negint"
		}
		return "int"
	case ref.Flt:
		if math.Signbit(float64(x)) {
			return "negfloat"
		}
		return "float"
	case *ref.Var:
		return "var"
	case *ref.Cmp:
		fc := "op" + atomClass(x.F)
		if d >= 1 {
			return fc + "/" + fmt.Sprint(len(x.Args))
		}
		var as []string
		for _, a := range x.Args {
			as = append(as, c06Shape(a, d+1))
		}
		return fc + "(" + strings.Join(as, ",") + ")"
	}
	return "?"
}

func atomClass(s string) string {
	letter := func(r rune) bool { return r == '_' || r >= 'a' && r <= 'z' || r >= 'A' && r <= 'Z' || r >= '0' && r <= '9' }
	switch {
	case strings.ContainsRune(s, '\ufffd'):
		return "[contains U+FFFD]"
	case s == "":
		return "[empty]"
	case s == "[]" || s == "{}" || s == "!" || s == ";" || s == "," || s == "|":
		return "[solo]"
	}
	all := func(f func(rune) bool) bool {
		for _, r := range s {
			if !f(r) {
				return false
			}
		}
		return true
	}
	switch {
	case all(letter):
		return "[alnum]"
	case all(func(r rune) bool { return strings.ContainsRune("+-*/\\^<>=~:.?@#&$", r) }):
		return "[graphic]"
	case all(func(r rune) bool { return r < 0x80 && r >= 0x20 }):
		return "[quoted-ascii]"
	case all(func(r rune) bool { return r >= 0x20 }):
		return "[non-ascii]"
	}
	return "[control]"
}

func c06Work(w *h.W) {
	dqs := []string{"codes", "chars", "atom"}
	writersAll := []string{"writeq", "write_canonical", "quoted", "quoted-ignore"}
	envs := map[string]*c06Env{}
	for _, dq := range dqs {
		e, err := c06New(dq, nil)
		if err != nil {
			w.Note("cannot create interpreter: " + err.Error())
			return
		}
		envs[dq] = e
	}
	full := c06Leaves(true)
	red := c06Leaves(false)
	// (1) every leaf and every depth-1 term with one operand from the full leaf set
	var terms []ref.Term
	terms = append(terms, full...)
	terms = append(terms, c06Depth1(nil, full, ref.Atom("a"))...)
	terms = append(terms, c06Depth1(nil, red, ref.Int(1))...)
	terms = append(terms, c06Depth1(nil, red, ref.Atom("-"))...)
	for _, t := range terms {
		for _, dq := range dqs {
			for _, wr := range writersAll {
				if !w.Mine() {
					continue
				}
				if w.Expired() {
					return
				}
				c06Emit(w, envs[dq], &c06Case{DQ: dq}, t, wr)
			}
		}
	}
	// (2) depth 2: every constructor around every depth-1 term over the reduced leaves, in each operand position
	inner := c06Depth1(nil, red, ref.Atom("a"))
	if w.Thorough() {
		inner = append(inner, c06Depth1(nil, red, ref.Int(-1))...)
	}
	for _, in := range inner {
		for _, t := range c06Depth1(nil, []ref.Term{in}, ref.Atom("a")) {
			for _, wr := range []string{"writeq", "write_canonical"} {
				if !w.Mine() {
					continue
				}
				if w.Expired() {
					return
				}
				c06Emit(w, envs["codes"], &c06Case{DQ: "codes"}, t, wr)
			}
		}
	}
	// (3) operator tables reached through op/3: names o1, o2 and '-', priorities {200, 700, 1200} x 7 specifiers
	specs := []string{"fx", "fy", "xfx", "xfy", "yfx", "xf", "yf"}
	var single []string
	for _, n := range []string{"o1", "-"} {
		for _, s := range specs {
			for _, p := range []string{"200", "700", "1200"} {
				single = append(single, fmt.Sprintf("op(%s, %s, %s)", p, s, n))
			}
		}
	}
	var tables [][]string
	for _, a := range single {
		tables = append(tables, []string{a})
	}
	for _, a := range single {
		for _, s := range specs {
			for _, p := range []string{"200", "700"} {
				if w.Thorough() || p == "700" {
					tables = append(tables, []string{a, fmt.Sprintf("op(%s, %s, o2)", p, s)})
					tables = append(tables, []string{a, fmt.Sprintf("op(%s, %s, o1)", p, s)})
				}
			}
		}
	}
	opLeaves := []ref.Term{ref.Atom("o1"), ref.Atom("o2"), ref.Atom("a"), ref.Int(1), ref.Int(-1), ref.Atom("-")}
	for _, tb := range tables {
		if !w.Mine() {
			continue
		}
		if w.Expired() {
			return
		}
		e, err := c06New("", tb)
		if err != nil {
			continue // the op/3 sequence is not valid (e.g. infix + postfix): not a reachable table
		}
		var d1 []ref.Term
		for _, f := range []string{"o1", "o2", "-"} {
			for _, x := range opLeaves {
				d1 = append(d1, ref.C(f, x))
				for _, y := range opLeaves {
					d1 = append(d1, ref.C(f, x, y))
				}
			}
		}
		ts := append([]ref.Term{}, d1...)
		for _, f := range []string{"o1", "o2", "-", "f"} {
			for i, x := range d1 {
				if !w.Thorough() && i%3 != 0 {
					continue
				}
				ts = append(ts, ref.C(f, x), ref.C(f, x, ref.Atom("a")), ref.C(f, ref.Atom("a"), x))
			}
		}
		for _, t := range ts {
			c06Emit(w, e, &c06Case{Ops: tb}, t, "writeq")
		}
	}
	// (3c) priority neighbours: o1 at a priority next to (or equal to) that of o2 and of the built-in operators =, ^, -,
	// and ',': whether an operand needs brackets hinges on one priority being below or merely not above the other,
	// for the writer and for the reader alike. All terms of depth 2 over these functors.
	{
		nspecs := specs
		if !w.Thorough() {
			nspecs = []string{"xfx", "xfy", "yfx", "fy", "fx", "xf"}
		}
		var ntables [][]string
		for _, p1 := range []int{199, 200, 201, 499, 500, 501, 699, 700, 701, 999, 1000, 1001} {
			for _, s1 := range specs {
				a := fmt.Sprintf("op(%d, %s, o1)", p1, s1)
				ntables = append(ntables, []string{a})
				if p1%100 == 0 || w.Thorough() {
					for _, dq := range []int{-1, 0, 1} {
						for _, s2 := range nspecs {
							ntables = append(ntables, []string{a, fmt.Sprintf("op(%d, %s, o2)", p1+dq, s2)})
						}
					}
				}
			}
		}
		fs := []string{"o1", "o2", "=", "^", "-", ","}
		lv := []ref.Term{ref.Atom("a"), ref.Int(1)}
		var inner []ref.Term
		for _, f := range fs {
			inner = append(inner, ref.C(f, lv[0], lv[1]))
			if f != "," && f != "=" && f != "^" {
				inner = append(inner, ref.C(f, lv[0]))
			}
		}
		var nts []ref.Term
		for _, f := range fs {
			for _, x := range inner {
				nts = append(nts, ref.C(f, x, ref.Atom("c")), ref.C(f, ref.Atom("c"), x))
				if f != "," && f != "=" && f != "^" {
					nts = append(nts, ref.C(f, x))
				}
			}
		}
		for _, tb := range ntables {
			if !w.Mine() {
				continue
			}
			if w.Expired() {
				return
			}
			e, err := c06New("", tb)
			if err != nil {
				continue // not a reachable table (an infix and a postfix operator of one name)
			}
			for _, t := range nts {
				c06Emit(w, e, &c06Case{Ops: tb}, t, "writeq")
			}
		}
	}
	// (3b) token adjacency: operator names that can fuse with a neighbouring token (a digit string, a
	// float, a quote, a comment opener, another symbol) x all specifiers x leaves of every token class
	adjNames := []string{"e1", "e", "x1", "b1", "o7", "a", "é", "/*", "*", "-", "'", "0", "[]", "{}", "|", "E", "\x00"} // the last: the atom whose internal value is 0
	adjLeaves := []ref.Term{ref.C(",", ref.Atom("a"), ref.Atom("b")), ref.C(":-", ref.Atom("a"), ref.Atom("b")), ref.Int(0), ref.Int(1), ref.Int(-1), ref.Flt(1.0), ref.Flt(-1.0), ref.Flt(1e10), ref.Flt(1.5e-7), ref.Atom("a"), ref.Atom("-"), ref.Atom("*"),
		ref.Atom("[]"), ref.Atom("{}"), ref.Atom("A b"), ref.Atom(""), ref.Atom("/*"), ref.NewVar("V"), ref.C("f", ref.Atom("a")), ref.List(ref.Int(1)), ref.C("{}", ref.Int(1)),
		ref.C("-", ref.Int(1)), ref.C("-", ref.Atom("a")), ref.C("-", ref.Int(1), ref.Int(2)), ref.C("$VAR", ref.Int(1))}
	for _, n := range adjNames {
		for _, sp := range specs {
			for _, pr := range []string{"200", "700"} {
				if !w.Mine() {
					continue
				}
				if w.Expired() {
					return
				}
				tb := []string{fmt.Sprintf("op(%s, %s, %s)", pr, sp, ref.QuoteAtom(n))}
				e, err := c06New("", tb)
				if err != nil {
					continue // not a permitted operator (e.g. '[]', '{}', '|' below 1001): not a reachable table
				}
				var ts []ref.Term
				for _, x := range adjLeaves {
					ts = append(ts, ref.C(n, x), ref.C(n, ref.C(n, x)), ref.C("-", ref.C(n, x)), ref.C("f", ref.C(n, x), ref.C(n, x)), ref.List(ref.C(n, x)))
					for _, y := range adjLeaves {
						ts = append(ts, ref.C(n, x, y))
						if w.Thorough() {
							ts = append(ts, ref.C(n, ref.C(n, x, y), y), ref.C(n, x, ref.C(n, y, x)), ref.C("-", ref.C(n, x, y)), ref.C("=", ref.C(n, x, y), y))
						}
					}
				}
				for _, t := range ts {
					for _, wr := range []string{"writeq", "quoted"} {
						if wr == "writeq" && strings.Contains(c06Canon(t), "'$VAR'(") {
							continue // writeq writes '$VAR'(N) as a variable name by definition: not a round trip
						}
						c06Emit(w, e, &c06Case{Ops: tb}, t, wr)
					}
				}
			}
		}
	}
	// (4) numbers through number_codes/2 and number_chars/2: integer boundary grid and a float grid of
	// every binade x mantissa patterns x sign, plus the neighbours of the powers of ten
	c06Numbers(w, envs["codes"])
	c06Representations(w, envs["chars"])
}

func c06Numbers(w *h.W, e *c06Env) {
	check := func(v interface{}, via string) {
		c := &c06Case{Number: true, Via: via}
		w.Guard(c)
		back, err := e.capture(via+"(?, Cs), "+via+"(Y, Cs) .", "Y", v)
		w.Unguard()
		w.Eval(1)
		w.Transitions(2)
		w.Traces(1)
		var want ref.Term
		switch x := v.(type) {
		case int64:
			want = ref.Int(x)
		case float64:
			want = ref.Flt(x)
		}
		exp := c06Canon(want)
		act := ""
		if err != nil {
			act = "error: " + err.Error()
		} else {
			act = c06Canon(back)
		}
		w.Outcome(via + fmt.Sprint(act == exp))
		if act != exp {
			c.Term = ref.Enc(want)
			c.Writer = via
			kind := "int"
			if _, ok := v.(float64); ok {
				kind = "float"
			}
			w.Violation("number "+via+": "+kind+" does not come back as the same number", c, exp+" = "+ref.Text(want), act, 1)
		} else {
			w.Nontrivial(exp + via)
		}
	}
	for _, i := range c07Ints(true) {
		for _, via := range []string{"number_codes", "number_chars"} {
			if !w.Mine() {
				continue
			}
			check(i, via)
		}
	}
	step := 1
	if !w.Thorough() {
		step = 8 // quick: every 8th binade, all mantissa patterns
	}
	for exp := 0; exp < 2047; exp += step {
		for m := 0; m < 64; m++ {
			// mantissa patterns: low bits, high bits, alternating
			var mant uint64
			switch {
			case m < 16:
				mant = uint64(m)
			case m < 32:
				mant = (1<<52 - 1) - uint64(m-16)
			case m < 48:
				mant = uint64(m-32) << 48
			default:
				mant = 0x5555555555555 ^ (uint64(m-48) << 20)
			}
			mant &= 1<<52 - 1
			for _, sign := range []uint64{0, 1} {
				if !w.Mine() {
					continue
				}
				if w.Expired() {
					return
				}
				f := math.Float64frombits(sign<<63 | uint64(exp)<<52 | mant)
				check(f, "number_codes")
			}
		}
	}
	for p := -320; p <= 308; p++ {
		base := math.Pow(10, float64(p))
		for _, f := range []float64{base, math.Nextafter(base, 0), math.Nextafter(base, math.Inf(1)), 2.485920150732612e-27 * math.Pow(10, float64(p%5))} {
			if f == 0 || math.IsInf(f, 0) {
				continue
			}
			if !w.Mine() {
				continue
			}
			check(f, "number_chars")
		}
	}
}

func c06Replay(b []byte) (string, string, bool) {
	var c c06Case
	if err := json.Unmarshal(b, &c); err != nil {
		return "", err.Error(), false
	}
	e, err := c06New(c.DQ, c.Ops)
	if err != nil {
		return "", err.Error(), false
	}
	t := ref.Dec(c.Term, map[string]*ref.Var{})
	if c.Number {
		var v interface{}
		switch x := t.(type) {
		case ref.Int:
			v = int64(x)
		case ref.Flt:
			v = float64(x)
		}
		back, err := e.capture(c.Via+"(?, Cs), "+c.Via+"(Y, Cs) .", "Y", v)
		if err != nil {
			return c06Canon(t), err.Error(), false
		}
		return c06Canon(t), c06Canon(back), c06Canon(t) == c06Canon(back)
	}
	if c.Build != "" {
		text, exp, act, ok := e.roundTripBuilt(c.Build, t, c.Writer)
		return exp + " written as " + fmt.Sprintf("%q", text), act, ok
	}
	text, exp, act, ok := e.roundTrip(t, c.Writer)
	return exp + " written as " + fmt.Sprintf("%q", text), act, ok
}

func init() {
	h.Register(&h.Check{
		ID: "C06",
		Rule: "(1) every leaf of a 71-element set (atoms of every lexical class: solo, graphic, alphanumeric, quoted with escapes, empty, control characters, non-ASCII letters and symbols, names of operators, exponent-like names; integers incl. min/max; floats incl. denormal, max, -0.0; variables) and every depth-1 term that puts such a leaf into every operand position of every prefix and infix operator of the default table, f/1..3, lists, partial lists, {}/1, '{}'/2, '[]'/1, nested minus, under each double_quotes flag and each of writeq, write_canonical, write_term quoted, quoted+ignore_ops; (2) depth 2: every constructor around every depth-1 term over a reduced leaf set, in each operand position; (3) operator tables reached by op/3 on o1, o2 and '-' (7 specifiers x 3 priorities, singly and in pairs): all terms of depth <= 2 over {o1, o2, -, a, 1, -1} with functors o1, o2, - of arity 1 and 2; (3c) priority neighbours: o1 at 12 priorities next to and equal to those of the built-in operators (199..201, 499..501, 699..701, 999..1001) x 7 specifiers, alone and with o2 one below, at and one above it (x 6 (7) specifiers): all terms of depth 2 over o1, o2, =, ^, -, ',' in prefix, infix and postfix use; (3b) token adjacency: each of 17 operator names that can fuse with a neighbouring token (e1, e, x1, b1, o7, a, a non-ASCII letter, /*, *, -, a quote, 0, [], {}, |, E, NUL) x 7 specifiers x 2 priorities x 25 leaves of every token class (incl. comma and :- terms as arguments) (integers, floats with and without exponent, atoms of every class, a variable, compound, list, {}, negative numbers vs. -(1)) in every operand position, nested, under minus, as argument and list element; and one atom per Unicode general category alone and next to letters (1); (4) number_codes/number_chars there and back for the integer boundary grid and a float grid of every (8th) binade x 64 mantissa patterns x sign plus the neighbours of every power of ten; (5) representations: every list of <= 3 (4) elements over 8 values (incl. a non-ASCII character and its code) built through each of the 16 construction recipes of C02 (bracket, bar, partial then bound, './2', atom_chars/atom_codes output, double-quoted literal, append/3 in three modes, findall/3, length/2 + unification, ...) bare and in 8 contexts, through three writers. Distinct = (term, writer, flag).",
		Explanation: "state = a term built WITHOUT the reader (atom_codes/2 with placeholder code lists, =../2); transition = write with the real writer, then read the text + ' .' with read_term/2 under the same table and flags; the term read must equal the term written up to variable renaming, floats by bit pattern; structural capture on both sides",
		Assumptions: []string{"'$VAR'(N) terms are excluded as the property states", "terms are built through atom_codes/2, =../2 and placeholders, which C15/C16 check separately"},
		Work:        c06Work,
		Replay:      c06Replay,
		QuickDeadline: 170 * time.Second, ThoroughDeadline: 30 * time.Minute,
	})
}
