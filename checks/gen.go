package checks

import (
	"regexp"

	"verif/ref"
)

// Enumeration helpers shared by the checks. All enumerations are deterministic and ordered
// smallest first.

type T = ref.Term

func A(s string) ref.Atom          { return ref.Atom(s) }
func I(i int64) ref.Int            { return ref.Int(i) }
func Cm(f string, a ...T) *ref.Cmp { return ref.C(f, a...) }
func V(n string) *ref.Var          { return &ref.Var{Name: n, ID: -1} }

// namedVars returns variables X, Y, Z... that are shared across a whole case. A generator that
// needs the same variable in several places uses the same pointer.
type varPool map[string]*ref.Var

func (p varPool) get(n string) *ref.Var {
	if v, ok := p[n]; ok {
		return v
	}
	v := &ref.Var{Name: n, ID: -1}
	p[n] = v
	return v
}

// Functor is a constructor for the term enumerator.
type Functor struct {
	Name  string
	Arity int
}

// termsUpTo returns all terms of depth <= depth over leaves and functors (depth 0 = leaves).
// "./2" is treated as any other functor (it yields lists, partial lists and improper lists).
func termsUpTo(leaves []T, functors []Functor, depth int) []T {
	prev := append([]T{}, leaves...)
	all := append([]T{}, leaves...)
	for d := 1; d <= depth; d++ {
		// terms of depth exactly d: at least one argument of depth exactly d-1
		var exact []T
		lower := all[:len(all)-len(prev)] // depth < d-1
		sub := all                        // depth <= d-1
		for _, f := range functors {
			args := make([]T, f.Arity)
			var rec func(i int, hasTop bool)
			rec = func(i int, hasTop bool) {
				if i == f.Arity {
					if hasTop {
						exact = append(exact, &ref.Cmp{F: f.Name, Args: append([]T{}, args...)})
					}
					return
				}
				for j, a := range sub {
					args[i] = a
					rec(i+1, hasTop || j >= len(lower))
				}
			}
			rec(0, false)
		}
		all = append(all, exact...)
		prev = exact
	}
	return all
}

// seqs calls f with every sequence of length n over 0..k-1.
func seqs(n, k int, f func([]int) bool) {
	idx := make([]int, n)
	for {
		if !f(idx) {
			return
		}
		i := n - 1
		for i >= 0 {
			idx[i]++
			if idx[i] < k {
				break
			}
			idx[i] = 0
			i--
		}
		if i < 0 {
			return
		}
	}
}

func conj(gs ...T) T {
	if len(gs) == 0 {
		return A("true")
	}
	r := gs[len(gs)-1]
	for i := len(gs) - 2; i >= 0; i-- {
		r = Cm(",", gs[i], r)
	}
	return r
}

func rule(head T, body ...T) T {
	if len(body) == 0 {
		return head
	}
	return Cm(":-", head, conj(body...))
}

// rd parses a term template; variables with the same name inside one template are shared.
func rd(s string) T { return ref.MustRead(s, nil) }

// rdv parses with an explicit variable pool so that several templates share variables.
func rdv(s string, vars map[string]*ref.Var) T { return ref.MustRead(s, vars) }

// rdAll parses a text of clauses.
func rdAll(s string) []T { return ref.MustReadAll(s) }

func digitsAfterUnderscore() *regexp.Regexp { return regexp.MustCompile(`_[0-9]+`) }
