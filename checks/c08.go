package checks

import (
	"encoding/json"
	"fmt"
	"strings"
	"time"

	"verif/h"
	"verif/ref"
)

// C08 — standard order is total and representation-independent; sorts obey it.

// zz_fresh is mentioned before aa_fresh, 'B' before a ...: interning order differs from text order
var c08Universe = []string{
	"X", "Y",
	"-1.5", "0.0", "1.0", "2.5",
	"-1", "0", "1", "2", "10",
	"zz_fresh", "aa_fresh", "[]", "''", "b", "a", "aa", "ab", "'B'", "'hello world'", "f", "g", "'.'", "'é'", "'ab c'",
	"f(a)", "g(a)", "f(b)", "f(X)", "f(Y)", "f(a, a)", "f(a, b)", "f(b, a)", "g(a, a)", "a-1", "1-a", "f(a, a, a)", "f(f(a))", "f(g(a))",
	"f([a])", "[a]", "[a, b]", "[a|b]", "[b]", "[a|X]", "[X]", "\"ab\"", "\"b\"", "f(1)", "f(1.0)", "f(-1)", "f(0.0, a)", "g(1, 1.0)", "g(1.0, 1)",
	"f(a, f(a, b))", "f(a, f(a, c))", "'.'(a)", "[[]]", "[[a]]", "{a}", "'{}'", "f(zz_fresh)", "f(aa_fresh)",
}

var c08Ops = []string{"==", "\\==", "@<", "@=<", "@>", "@>="}

func c08PairWork(w *h.W) {
	n := len(c08Universe)
	intro := h.Query(rd("T = ["+strings.Join(c08Universe, ", ")+"]"), 1)
	intro.NoCompare = true
	for i := 0; i < n; i++ {
		if !w.Mine() {
			continue
		}
		pc := &h.ProgCase{DQ: "chars", Independent: true, Steps: []h.ProgStep{intro}}
		for j := 0; j < n; j++ {
			a, b := c08Universe[i], c08Universe[j]
			// the two sides are written separately: equal compounds are distinct Go objects
			pc.Steps = append(pc.Steps, h.Query(rd("compare(O, "+a+", "+b+")"), 2))
			for _, op := range c08Ops {
				vars := map[string]*ref.Var{}
				pc.Steps = append(pc.Steps, h.Query(Cm(op, rdv(a, vars), rdv(b, vars)), 2))
			}
		}
		runProgCase(w, "pairs", pc, 1)
	}
}

// laws inside one call (the order of distinct variables only has to be fixed within a call)
type c08LawCase struct {
	Law   bool     `json:"law"`
	Terms []string `json:"terms"`
}

func c08LawRun(c *c08LawCase) (exp, act string, ok bool) {
	im := h.NewImpl()
	im.Timeout = 5 * time.Minute // a resource guard, not an oracle: 500 terms are 250000 comparisons, seconds on a loaded machine
	q := "T = [" + strings.Join(c.Terms, ", ") + "], findall(O, (member(A, T), member(B, T), compare(O, A, B)), M)."
	o, ans := im.QueryTerms(q, []string{"M"}, 1)
	if len(ans) != 1 {
		return "one answer", o.String(), false
	}
	elems, _ := ref.ListSlice(ans[0][0])
	k := len(c.Terms)
	if len(elems) != k*k {
		return fmt.Sprintf("%d comparison results", k*k), fmt.Sprint(len(elems)), false
	}
	m := make([][]string, k)
	for i := range m {
		m[i] = make([]string, k)
		for j := range m[i] {
			a, _ := elems[i*k+j].(ref.Atom)
			m[i][j] = string(a)
		}
	}
	inv := map[string]string{"<": ">", ">": "<", "=": "="}
	// reference matrix; entries that hinge on the order of two distinct unbound variables are not
	// constrained across calls (the property: fixed within one call only)
	vars := map[string]*ref.Var{}
	ts := make([]T, k)
	for i, t := range c.Terms {
		ts[i] = ref.ExpandStrings(rdv(t, vars), h.DefaultDQ())
	}
	hinge := make([][]bool, k)
	for i := 0; i < k; i++ {
		hinge[i] = make([]bool, k)
		for j := 0; j < k; j++ {
			cmp, hg := ref.Order(ts[i], ts[j])
			hinge[i][j] = hg
			if _, okk := inv[m[i][j]]; !okk {
				return "one of < = >", fmt.Sprintf("compare(%s, %s) = %q", c.Terms[i], c.Terms[j], m[i][j]), false
			}
			if hg {
				continue
			}
			if cmp == 0 && c.Terms[i] != c.Terms[j] {
				// equal by value but written differently (0.0 and -0.0): which way they are ordered, if at all, is left
				// open (see the assumptions); the laws below still bind whatever the implementation answers
				continue
			}
			want := "="
			if cmp < 0 {
				want = "<"
			} else if cmp > 0 {
				want = ">"
			}
			if m[i][j] != want {
				return fmt.Sprintf("compare(O, %s, %s) gives %s", c.Terms[i], c.Terms[j], want), m[i][j], false
			}
		}
	}
	for i := 0; i < k; i++ {
		for j := 0; j < k; j++ {
			if hinge[i][j] {
				if m[i][j] == "=" {
					return "'=' exactly for identical terms", fmt.Sprintf("compare(O, %s, %s) gives =", c.Terms[i], c.Terms[j]), false
				}
				continue
			}
			if m[j][i] != inv[m[i][j]] {
				return "antisymmetry", fmt.Sprintf("compare(%s,%s)=%s but compare(%s,%s)=%s", c.Terms[i], c.Terms[j], m[i][j], c.Terms[j], c.Terms[i], m[j][i]), false
			}
			for l := 0; l < k; l++ {
				if hinge[j][l] || hinge[i][l] {
					continue
				}
				if m[i][j] == "<" && m[j][l] == "<" && m[i][l] != "<" {
					return "transitivity", fmt.Sprintf("%s < %s < %s but compare(%s,%s)=%s", c.Terms[i], c.Terms[j], c.Terms[l], c.Terms[i], c.Terms[l], m[i][l]), false
				}
			}
		}
	}
	return "", "", true
}

func c08LawWork(w *h.W) {
	sets := [][]string{
		{"X", "Y", "Z", "f(X)", "f(Y)", "f(Z)", "g(X, Y)", "g(Y, X)", "g(X, X)", "[X|Y]", "[Y|X]", "[X, Y]", "a", "1", "1.0", "f(a)"},
		{"X", "Y", "f(X, a)", "f(Y, a)", "f(a, X)", "f(a, Y)", "f(X, Y)", "f(Y, Y)", "[X]", "[Y]", "[X, a]", "[a|Y]", "\"a\"", "[a|X]"},
	}
	// plus all 8-subsets windows of the ground universe (all triples are inside the pair matrix there)
	var ground []string
	for _, t := range c08Universe {
		if !strings.ContainsAny(t, "XY") {
			ground = append(ground, t)
		}
	}
	for off := 0; off+12 <= len(ground); off += 4 {
		sets = append(sets, ground[off:off+12])
	}
	for _, s := range sets {
		if !w.Mine() {
			continue
		}
		// distinct terms only
		c := &c08LawCase{Law: true, Terms: s}
		w.Guard(c)
		exp, act, ok := c08LawRun(c)
		w.Unguard()
		w.Eval(1)
		w.States(len(s))
		w.Transitions(len(s) * len(s))
		w.Traces(1)
		w.Nontrivial(strings.Join(s, ","))
		w.Outcome("laws")
		if !ok {
			w.Violation("laws: "+exp, c, exp, act, len(s))
		}
	}
}

func c08SortWork(w *h.W) {
	sub := []string{"a", "b", "1", "1.0", "f(a)", "f(b)", "[a]", "zz_fresh", "aa_fresh", "g(a, a)"}
	maxLen := w.Pick(4, 5)
	if !w.Thorough() {
		sub = sub[:8]
	}
	for l := 0; l <= maxLen; l++ {
		// one case per first two elements
		seqs(l, len(sub), func(idx []int) bool {
			if l >= 3 && (idx[l-1] != 0 || idx[l-2] != 0) {
				return true // cases are formed at (…,0,0); the last two positions are enumerated inside
			}
			if !w.Mine() {
				return true
			}
			if w.Expired() {
				return false
			}
			pc := &h.ProgCase{Independent: true}
			add := func(elems []string) {
				lst := "[" + strings.Join(elems, ", ") + "]"
				pc.Steps = append(pc.Steps, h.Query(rd("sort("+lst+", S)"), 2))
				if len(elems) > 0 {
					pc.Steps = append(pc.Steps, h.Query(rd("setof(E, member(E, "+lst+"), S)"), 2))
				}
			}
			el := make([]string, l)
			for i, j := range idx {
				el[i] = sub[j]
			}
			if l < 3 {
				add(el)
			} else {
				for a := range sub {
					for b := range sub {
						el[l-2], el[l-1] = sub[a], sub[b]
						add(el)
					}
				}
			}
			runProgCase(w, "sort", pc, l)
			return true
		})
	}
	// keysort: keys from a 4-term set, payload = position (stability is visible)
	keys := []string{"a", "b", "1", "f(a)"}
	for l := 0; l <= w.Pick(5, 6); l++ {
		seqs(l, len(keys), func(idx []int) bool {
			if l >= 3 && (idx[l-1] != 0 || idx[l-2] != 0) {
				return true
			}
			if !w.Mine() {
				return true
			}
			pc := &h.ProgCase{Independent: true}
			el := make([]int, l)
			copy(el, idx)
			add := func() {
				var ps []string
				for i, k := range el {
					ps = append(ps, fmt.Sprintf("%s-%d", keys[k], i))
				}
				pc.Steps = append(pc.Steps, h.Query(rd("keysort(["+strings.Join(ps, ", ")+"], S)"), 2))
			}
			if l < 3 {
				add()
			} else {
				for a := range keys {
					for b := range keys {
						el[l-2], el[l-1] = a, b
						add()
					}
				}
			}
			runProgCase(w, "keysort", pc, l)
			return true
		})
	}
	// stability needs long lists: Go's unstable sort is an insertion sort (stable) up to 12 elements
	for _, l := range []int{13, 14, 16, 20} {
		if !w.Thorough() && l > 14 {
			continue
		}
		total := 1 << 13
		const chunk = 256
		for off := 0; off < total; off += chunk {
			if !w.Mine() {
				continue
			}
			if w.Expired() {
				return
			}
			pc := &h.ProgCase{Independent: true}
			for m := off; m < off+chunk; m++ {
				var ps []string
				for i := 0; i < l; i++ {
					k := "b"
					if (m>>(i%13))&1 == 0 {
						k = "a"
					}
					if i >= 13 && i%3 == 0 {
						k = "c"
					}
					ps = append(ps, fmt.Sprintf("%s-%d", k, i))
				}
				pc.Steps = append(pc.Steps, h.Query(rd("keysort(["+strings.Join(ps, ", ")+"], S)"), 2))
			}
			runProgCase(w, "keysort-long", pc, l)
		}
	}
}

// the same abstract list in every representation compares '=' and sorts alike
func c08RecipeWork(w *h.W) {
	recipes := c02Recipes()
	lists := c02AbstractLists(w.Pick(2, 3))
	for _, la := range lists {
		for _, lb := range lists {
			if !w.Mine() {
				continue
			}
			if w.Expired() {
				return
			}
			pc := &h.ProgCase{DQ: "chars", Independent: true}
			for _, ra := range recipes {
				for _, rb := range recipes {
					ga := ra.build(la, V("LA"), 1)
					gb := rb.build(lb, V("LB"), 2)
					if ga == nil || gb == nil {
						continue
					}
					goals := append(append([]T{}, ga...), gb...)
					pc.Steps = append(pc.Steps,
						h.Query(conj(append(append([]T{}, goals...), Cm("compare", V("O"), V("LA"), V("LB")))...), 2),
						h.Query(conj(append(append([]T{}, goals...), Cm("sort", ref.List(V("LA"), V("LB"), Cm("f", V("LB")), Cm("f", V("LA"))), V("S")))...), 2))
				}
			}
			runProgCase(w, "recipes", pc, len(la)+len(lb))
		}
	}
}

// (e) numbers: the complete comparison matrix over the integer and float boundary grids (bare and
// nested in compounds and lists), and sorts of all short lists over the extreme values.
func c08NumberWork(w *h.W) {
	var nums []string
	for _, i := range c07Ints(w.Thorough()) {
		nums = append(nums, fmt.Sprint(i))
	}
	for _, f := range c07Floats(w.Thorough()) {
		nums = append(nums, ref.Text(ref.Flt(f))) // -0.0 included: its order against 0.0 is open, the laws are not
	}
	var sets [][]string
	sets = append(sets, nums)
	for _, wrapf := range []string{"f(%s)", "[%s]", "g(a, %s)", "%s-a", "[a, %s|t]"} {
		var s []string
		for i, n := range nums {
			if i%2 == 0 || w.Thorough() {
				s = append(s, fmt.Sprintf(wrapf, n))
			}
		}
		sets = append(sets, s)
	}
	for _, s := range sets {
		if !w.Mine() {
			continue
		}
		c := &c08LawCase{Law: true, Terms: s}
		w.GuardFor(c, 6*time.Minute)
		exp, act, ok := c08LawRun(c)
		w.Unguard()
		w.Eval(1)
		w.States(len(s))
		w.Transitions(len(s) * len(s))
		w.Traces(1)
		w.Nontrivial("numbers:" + s[0])
		w.Outcome("laws-numbers")
		if !ok {
			w.Violation("laws(numbers): "+exp, c, exp, act, len(s))
		}
	}
	// the six comparison predicates on all pairs of the bare grid (without -0.0: its order against 0.0 is open)
	var bare []string
	for _, n := range nums {
		if n != "-0.0" {
			bare = append(bare, n)
		}
	}
	for i, a := range bare {
		if !w.Mine() {
			continue
		}
		if w.Expired() {
			return
		}
		pc := &h.ProgCase{Independent: true}
		for _, b := range bare {
			for _, op := range c08Ops {
				pc.Steps = append(pc.Steps, h.Query(Cm(op, rd(a), rd(b)), 2))
			}
		}
		runProgCase(w, "number-pairs", pc, i)
	}
	// sorting extreme values
	ext := []string{"9223372036854775807", "-9223372036854775808", "-1", "0", "1", "-2", "4611686018427387904", "-4611686018427387905", "1.0e10", "-1.5", "9223372036854775806", "1.0"}
	maxLen := w.Pick(3, 4)
	for l := 2; l <= maxLen; l++ {
		seqs(l-1, len(ext), func(idx []int) bool {
			if !w.Mine() {
				return true
			}
			if w.Expired() {
				return false
			}
			pc := &h.ProgCase{Independent: true}
			for _, last := range ext {
				var el, ps []string
				for _, j := range idx {
					el = append(el, ext[j])
				}
				el = append(el, last)
				for i, e := range el {
					ps = append(ps, fmt.Sprintf("%s-%d", e, i))
				}
				lst := "[" + strings.Join(el, ", ") + "]"
				pc.Steps = append(pc.Steps, h.Query(rd("sort("+lst+", S)"), 2),
					h.Query(rd("setof(E, member(E, "+lst+"), S)"), 2), h.Query(rd("keysort(["+strings.Join(ps, ", ")+"], S)"), 2))
			}
			runProgCase(w, "sort-numbers", pc, l)
			return true
		})
	}
}

// (f) atoms by text: all strings of <= 2 characters over characters of 1, 2, 3 and 4 bytes (one-character
// atoms are held differently from longer ones), as atoms and as functor names
func c08AtomWork(w *h.W) {
	chars := []string{"a", "z", "é", "α", "猫", "𝒳", "À", "µ"}
	var names []string
	names = append(names, "")
	for _, c := range chars {
		names = append(names, c)
	}
	for _, c1 := range chars {
		for _, c2 := range chars {
			names = append(names, c1+c2)
		}
	}
	var atoms, fun1, fun2 []string
	for i, n := range names {
		q := ref.QuoteAtomAlways(n)
		atoms = append(atoms, q)
		if n != "" && (i%2 == 0 || w.Thorough()) {
			fun1 = append(fun1, q+"(x)")
			fun2 = append(fun2, "f("+q+", 1)")
		}
	}
	for _, s := range [][]string{atoms, fun1, fun2} {
		if !w.Mine() {
			continue
		}
		c := &c08LawCase{Law: true, Terms: s}
		w.GuardFor(c, 6*time.Minute)
		exp, act, ok := c08LawRun(c)
		w.Unguard()
		w.Eval(1)
		w.States(len(s))
		w.Transitions(len(s) * len(s))
		w.Traces(1)
		w.Nontrivial("atoms:" + s[1])
		w.Outcome("laws-atoms")
		if !ok {
			w.Violation("laws(atoms): "+exp, c, exp, act, len(s))
		}
	}
	// sorting
	sub := []string{"'α'", "'αβ'", "'β'", "'αα'", "b", "ab", "a", "'猫'", "'猫又'", "'é'"}
	for l := 2; l <= w.Pick(3, 4); l++ {
		seqs(l-1, len(sub), func(idx []int) bool {
			if !w.Mine() {
				return true
			}
			pc := &h.ProgCase{Independent: true}
			for _, last := range sub {
				var el, ps []string
				for _, j := range idx {
					el = append(el, sub[j])
				}
				el = append(el, last)
				for i, e := range el {
					ps = append(ps, fmt.Sprintf("%s-%d", e, i))
				}
				lst := "[" + strings.Join(el, ", ") + "]"
				pc.Steps = append(pc.Steps, h.Query(rd("sort("+lst+", S)"), 2), h.Query(rd("setof(E, member(E, "+lst+"), S)"), 2), h.Query(rd("keysort(["+strings.Join(ps, ", ")+"], S)"), 2))
			}
			runProgCase(w, "sort-atoms", pc, l)
			return true
		})
	}
}

func c08Work(w *h.W) {
	c08AtomWork(w)
	c08NumberWork(w)
	c08LawWork(w)
	c08PairWork(w)
	c08SortWork(w)
	c08RecipeWork(w)
}

func c08Replay(b []byte) (string, string, bool) {
	var lc c08LawCase
	if json.Unmarshal(b, &lc) == nil && lc.Law {
		return c08LawRun(&lc)
	}
	return h.ProgReplay(b)
}

func init() {
	h.Register(&h.Check{
		ID: "C08",
		Rule: "(a) all ordered pairs over a universe of 66 terms (variables, floats, integers incl. numerically equal 1/1.0, atoms whose interning order differs from their text order, compounds varying arity/name/arguments, lists in several notations, strings): compare/3 and the six comparison predicates, each side written separately; (b) order laws (one of < = >, '=' only for identical terms, antisymmetry, transitivity) on the complete comparison matrix computed inside ONE call for term sets with shared variables and for sliding windows of the ground universe; (c) sort/2 and setof/3 on all lists of length <= L over a 8-10 term sub-universe, keysort/2 on all lists of length <= K over 4 keys with the position as payload, and on all 2^13 lists of length 13, 14 (16, 20) over two or three keys (stability needs > 12 elements); (d) every pair of abstract lists through every pair of the 13 construction recipes: compare/3 and sort/2; (e) numbers: the complete comparison matrix with the order laws over the integer boundary grid (around 0, +-2^31, +-2^32, +-2^53, +-2^62, min/max) and the float grid of C07, bare and nested in 5 compound/list shapes; the six comparison predicates on all pairs of the bare grid; sort/2, setof/3 and keysort/2 on all lists of length <= 3 (4) over 12 extreme values; (f) atoms by text: the comparison matrix with the order laws over all 73 strings of <= 2 characters over 8 characters of 1..4 bytes (one-character atoms are held differently from longer ones), as atoms, as functor names and as arguments; sorts of all short lists over 10 such atoms. Non-trivial = decided.",
		Explanation: "state = a pair/list of terms; transition = one comparison or sort executed on the real interpreter and compared with the reference standard order (Var < Float < Integer < Atom < Compound; arity, name, arguments) - pairs whose order hinges on two distinct unbound variables are only subject to the in-call law checks",
		Assumptions: []string{"reference: ref/order exactly as the property states the order", "-0.0 versus 0.0 is not in the universe (the two are '=' here although they are written differently)"},
		Work:        c08Work,
		Replay:      c08Replay,
		QuickDeadline: 150 * time.Second, ThoroughDeadline: 25 * time.Minute,
	})
}
