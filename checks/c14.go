//go:build vsched

package checks

import (
	"testing/fstest"
	"bytes"
	"encoding/json"
	"fmt"
	"os"
	"os/exec"
	"regexp"
	"sort"
	"strings"
	"sync/atomic"
	"time"

	"github.com/anishathalye/porcupine"
	"github.com/ichiban/prolog"
	"github.com/ichiban/prolog/engine"
	"github.com/ichiban/prolog/verifshim/vsync"

	"verif/h"
)

// C14 — separate interpreters are isolated and run concurrently without data races.

var c14Run int64

var varNumRe = regexp.MustCompile(`_[0-9]+|0x[0-9a-f]+`)

type c14Case struct {
	Kind     string     `json:"kind"` // "atoms", "interp", "isolation"
	Programs [][]string `json:"programs,omitempty"`
	Schedule []int      `json:"schedule,omitempty"`
	Bound    int        `json:"bound,omitempty"`
	Mutator  string     `json:"mutator,omitempty"`
	Observer string     `json:"observer,omitempty"`
	NilIO    bool       `json:"nil_io,omitempty"`
}

// ---- (a) the atom table under all interleavings ------------------------------------------------

type atomCall struct {
	op   string // "new" or "str"
	name string
	id   uint64
}

type atomRet struct {
	id   uint64
	name string
}

var atomModel = porcupine.Model{
	Init: func() interface{} { return map[string]uint64{} },
	Step: func(state, input, output interface{}) (bool, interface{}) {
		st := state.(map[string]uint64)
		in := input.(atomCall)
		out := output.(atomRet)
		switch in.op {
		case "new":
			if id, ok := st[in.name]; ok {
				return id == out.id, st
			}
			for _, id := range st {
				if id == out.id {
					return false, st // a second name for an id
				}
			}
			ns := make(map[string]uint64, len(st)+1)
			for k, v := range st {
				ns[k] = v
			}
			ns[in.name] = out.id
			return true, ns
		case "str":
			for n, id := range st {
				if id == in.id {
					return n == out.name, st
				}
			}
			return false, st
		}
		return false, st
	},
	Equal: func(a, b interface{}) bool {
		x, y := a.(map[string]uint64), b.(map[string]uint64)
		if len(x) != len(y) {
			return false
		}
		for k, v := range x {
			if y[k] != v {
				return false
			}
		}
		return true
	},
}

// op syntax: "N:a" = NewAtom(name a); "R:a" = NewAtom(a).String()
func c14AtomsRun(c *c14Case, prefix []int) ([]string, *vsync.Result) {
	vsync.MutexPoints = true
	vsync.AtomicPoints = true
	run := atomic.AddInt64(&c14Run, 1)
	var problems []string
	var ops []porcupine.Operation
	var clock int64
	names := map[string]bool{}
	record := func(client int, in atomCall, call int64, out atomRet) {
		clock++
		ops = append(ops, porcupine.Operation{ClientId: client, Input: in, Call: call, Output: out, Return: clock})
	}
	thread := func(client int, prog []string) func() {
		return func() {
			for _, o := range prog {
				name := fmt.Sprintf("vx%d_%s%d", os.Getpid(), o[2:], run)
				names[name] = true
				clock++
				call := clock
				a := engine.NewAtom(name)
				record(client, atomCall{op: "new", name: name}, call, atomRet{id: uint64(a)})
				if o[0] == 'R' {
					clock++
					call = clock
					s := a.String()
					record(client, atomCall{op: "str", id: uint64(a)}, call, atomRet{name: s})
				}
			}
		}
	}
	body := func() {
		for i := 1; i < len(c.Programs); i++ {
			vsync.Go(thread(i, c.Programs[i]))
		}
		thread(0, c.Programs[0])()
	}
	r := vsync.Run(body, prefix, 100000)
	if r.Deadlock || len(r.Blocked) > 0 {
		problems = append(problems, "deadlock: a thread is blocked forever on the atom table")
	}
	if r.Panic != nil {
		problems = append(problems, fmt.Sprintf("panic: %v", r.Panic))
	}
	if !porcupine.CheckOperations(atomModel, ops) {
		problems = append(problems, "the NewAtom/String history is not linearizable against a sequential name<->id map")
	}
	// afterwards (sequentially): one id per name, one name per id
	for n := range names {
		id := engine.NewAtom(n)
		if id.String() != n {
			problems = append(problems, fmt.Sprintf("atom %q reads back as %q", n, id.String()))
		}
		for _, o := range ops {
			in := o.Input.(atomCall)
			if in.op == "new" && in.name == n && o.Output.(atomRet).id != uint64(id) {
				problems = append(problems, "two different atoms were returned for one name")
			}
		}
	}
	return problems, r
}

// ---- (b) two interpreters running small queries ---------------------------------------------

var c14Queries = []string{
	"atom_concat(vq%d_, ab, X), atom_length(X, L).",
	"atom_chars(A, [v, q, '%d', z]), atom_length(A, L).",
	"X = f(Y, Z), copy_term(X, W), W = f(1, 2).",
	"catch(undefined_vq%d, error(E, _), true).",
	"X = vq%d_lit, atom_length(X, L).",
}

func c14Answers(p *prolog.Interpreter, q string) string {
	sols, err := p.Query(q)
	if err != nil {
		return "query error: " + err.Error()
	}
	var out []string
	for sols.Next() {
		m := map[string]prolog.TermString{}
		if err := sols.Scan(m); err != nil {
			out = append(out, "scan error: "+err.Error())
			continue
		}
		var ks []string
		for k := range m {
			if !strings.HasPrefix(k, "_") { // helper variables holding map-ordered intermediate results
				ks = append(ks, k)
			}
		}
		sort.Strings(ks)
		var parts []string
		for _, k := range ks {
			v := varNumRe.ReplaceAllString(string(m[k]), "_") // variable numbers come from a process-wide counter
			parts = append(parts, k+"="+v)
		}
		out = append(out, strings.Join(parts, ","))
	}
	if err := sols.Err(); err != nil {
		out = append(out, "error: "+varNumRe.ReplaceAllString(err.Error(), "_"))
	}
	sols.Close()
	return strings.Join(out, " | ")
}

func c14InterpRun(c *c14Case, prefix []int) ([]string, *vsync.Result) {
	vsync.MutexPoints = true
	vsync.AtomicPoints = false // the variable counter is bumped thousands of times per query
	run := atomic.AddInt64(&c14Run, 1)
	n := len(c.Programs)
	ps := make([]*prolog.Interpreter, n)
	for i := range ps {
		ps[i] = prolog.New(strings.NewReader(""), &bytes.Buffer{}) // outside the controlled region
	}
	texts := make([][]string, n)
	for i, prog := range c.Programs {
		for _, q := range prog {
			texts[i] = append(texts[i], strings.ReplaceAll(q, "%d", fmt.Sprint(run)))
		}
	}
	got := make([][]string, n)
	thread := func(i int) func() {
		return func() {
			for _, q := range texts[i] {
				got[i] = append(got[i], c14Answers(ps[i], q))
			}
		}
	}
	body := func() {
		for i := 1; i < n; i++ {
			vsync.Go(thread(i))
		}
		thread(0)()
	}
	r := vsync.Run(body, prefix, 400000)
	var problems []string
	if r.Deadlock {
		problems = append(problems, "deadlock while two interpreters run")
	}
	if r.Panic != nil {
		problems = append(problems, fmt.Sprintf("panic: %v", r.Panic))
	}
	// solo answers (sequentially, fresh interpreters)
	for i := range c.Programs {
		solo := prolog.New(strings.NewReader(""), &bytes.Buffer{})
		for j, q := range texts[i] {
			want := c14Answers(solo, q)
			if j >= len(got[i]) {
				problems = append(problems, fmt.Sprintf("interpreter %d did not finish query %q", i, q))
				break
			}
			if got[i][j] != want {
				problems = append(problems, fmt.Sprintf("interpreter %d answers %q to %q, alone it answers %q", i, got[i][j], q, want))
			}
		}
	}
	return problems, r
}

// c14Explore explores all schedules of a scenario. deviation=false: preemption bound (a switch away
// from a runnable thread costs 1, switches at blocking points are free); deviation=true: deviation
// bound (every choice other than the default thread costs 1) - for scenarios with many blocking
// hand-offs, where free switches alone make the schedule space explode.
func c14Explore(w *h.W, c *c14Case, bound int, run func(*c14Case, []int) ([]string, *vsync.Result), maxExec int, deviation bool) {
	execs := 0
	capped := false
	outcomes := map[string]bool{}
	var explore func(prefix []int) bool
	explore = func(prefix []int) bool {
		if execs >= maxExec {
			capped = true
			return false
		}
		problems, r := run(c, prefix)
		execs++
		w.Transitions(len(r.Events))
		if r.Diverged != "" {
			w.Extra("diverged", 1)
			w.Note("replay diverged: " + r.Diverged)
		}
		outcomes[fmt.Sprint(len(r.Points))] = true
		if len(problems) > 0 {
			vc := *c
			vc.Schedule = r.Choices()
			vc.Bound = bound
			for _, p := range problems {
				sig := digitsRe.ReplaceAllString(p, "N")
				if len(sig) > 90 {
					sig = sig[:90]
				}
				w.Violation("concurrent "+c.Kind+": "+sig, &vc, "as a sequential execution", p, len(vc.Schedule))
			}
			return false
		}
		pre := 0
		for i := 0; i < len(r.Points); i++ {
			p := r.Points[i]
			if i >= len(prefix) {
				for alt := 1; alt < len(p.Enabled); alt++ {
					cost := pre
					if p.RunningEnabled || deviation {
						cost++
					}
					if cost > bound {
						continue
					}
					if !explore(append(append([]int{}, r.Choices()[:i]...), alt)) {
						return false
					}
				}
			}
			if (p.RunningEnabled || deviation) && p.Chosen != 0 {
				pre++
			}
		}
		return true
	}
	w.GuardFor(c, 10*time.Minute)
	explore(nil)
	w.Unguard()
	w.Eval(execs)
	w.States(1)
	w.Traces(1)
	w.Extra("schedules_"+c.Kind, int64(execs))
	if capped {
		w.Capped()
		w.Extra("scenarios_capped", 1)
		w.Note(fmt.Sprintf("scenario %v capped at %d schedules (bound %d)", c.Programs, maxExec, bound))
	}
	w.Nontrivial(fmt.Sprint(c.Kind, c.Programs))
	w.Outcome(fmt.Sprintf("%s:lens=%d", c.Kind, len(outcomes)))
	var lens []string
	for k := range outcomes {
		lens = append(lens, k)
	}
	sort.Strings(lens)
	w.Sample(fmt.Sprintf("%s %v: %d schedules at preemption bound %d; scheduling points per execution: %v", c.Kind, c.Programs, execs, bound, lens))
	if c.Kind == "interp" {
		w.Note(fmt.Sprintf("interp %v: points per execution %v", c.Programs, lens))
	}
}

// ---- (c) isolation matrix -----------------------------------------------------------------------

type c14Mut struct {
	name string
	do   func(p *prolog.Interpreter) error
}

func execQ(q string) func(p *prolog.Interpreter) error {
	return func(p *prolog.Interpreter) error {
		sols, err := p.Query(q)
		if err != nil {
			return err
		}
		for sols.Next() {
		}
		err = sols.Err()
		sols.Close()
		return err
	}
}

var c14Mutators = []c14Mut{
	{"assertz", execQ("assertz(iso_fact(1)).")},
	{"asserta-rule", execQ("asserta((iso_rule(X) :- X = 1)).")},
	{"exec-text", func(p *prolog.Interpreter) error { return p.Exec("iso_loaded(a). iso_loaded(b). member(x, y).") }},
	{"retract-shared-name", execQ("assertz(shared(1)), retract(shared(1)), assertz(shared(2)).")},
	{"abolish", execQ("assertz(iso_gone(1)), abolish(iso_gone/1).")},
	{"op-new", execQ("op(700, xfx, ===>).")},
	{"op-change", execQ("op(200, xfy, +), op(0, xfx, =), op(700, xfx, is_not).")},
	{"op-prefix", execQ("op(900, fy, ~), op(100, yf, ++).")},
	{"flag-double_quotes", execQ("set_prolog_flag(double_quotes, atom).")},
	{"flag-unknown", execQ("set_prolog_flag(unknown, fail).")},
	{"flag-char_conversion", execQ("set_prolog_flag(char_conversion, on), char_conversion(a, b).")},
	{"char_conversion", execQ("char_conversion(x, y).")},
	{"set_output", execQ("open('iso_out.txt', write, S, [alias(iso_alias)]), set_output(S).")},
	{"close-user", execQ("catch(close(user_output), _, true).")},
	{"read-input", execQ("read(_), get_char(_).")},
	{"write-output", execQ("write(hello), nl, put_char(x).")},
	{"register", func(p *prolog.Interpreter) error {
		p.Register0(engine.NewAtom("iso_builtin"), func(_ *engine.VM, k engine.Cont, env *engine.Env) *engine.Promise { return k(env) })
		return nil
	}},
	{"error-with-operator-term", execQ("catch(atom_length(1 + 2, _), _, true), catch(foo:bar, _, true).")},
	{"consult-fs", func(p *prolog.Interpreter) error { return p.Exec(":- initialization(assertz(iso_init(done))).") }},
	// every interpreter has a file system of its own (Interpreter.FS), in which a file of the same name holds another text
	// of the same size: A loads its file after B has loaded B's, in each of the ways to load a file
	{"consult-own-fs", c14LoadOwn("consult(iso_lib).")},
	{"ensure_loaded-own-fs", func(p *prolog.Interpreter) error {
		if err := p.Exec(":- ensure_loaded(iso_lib).\n"); err != nil {
			return err
		}
		return c14OwnFact(p)
	}},
	{"list-own-fs", c14LoadOwn("[iso_lib].")},
	{"include-own-fs", func(p *prolog.Interpreter) error {
		if err := p.Exec(":- include(iso_lib).\n"); err != nil {
			return err
		}
		return c14OwnFact(p)
	}},
}

// c14LoadOwn loads iso_lib.pl from the interpreter's own file system and checks that it is A's text that was loaded.
func c14LoadOwn(q string) func(p *prolog.Interpreter) error {
	return func(p *prolog.Interpreter) error {
		if err := execQ(q)(p); err != nil {
			return err
		}
		return c14OwnFact(p)
	}
}

func c14OwnFact(p *prolog.Interpreter) error {
	if got := c14Answers(p, "findall(X, iso_lib(X), L)."); !strings.Contains(got, "[a]") {
		return fmt.Errorf("interpreter A loaded iso_lib.pl from its own file system (iso_lib(a).) and answers %s", got)
	}
	return nil
}

func c14FS(who string) fstest.MapFS {
	return fstest.MapFS{"iso_lib.pl": &fstest.MapFile{Data: []byte("iso_lib(" + who + ").\n")}}
}

var c14Observers = []string{
	"findall(X, iso_fact(X), L).",
	"catch(iso_rule(X), error(E, _), true).",
	"catch(findall(X, iso_loaded(X), L), error(E, _), true).",
	"findall(X, member(X, [p, q]), L).",
	"catch(findall(X, shared(X), L), error(E, _), true).",
	"findall(PI, current_predicate(PI), _U), sort(_U, L).",
	"findall(op(P, T, N), current_op(P, T, N), _U), sort(_U, L).",
	"catch((atom_to_term_probe = X), _, true), X = (1 + 2 * 3), X = A + B, writeq(X).",
	"writeq(a = b), writeq(- (1)), writeq(f(:-, (a :- b))), writeq([a, 'B c'|t]).",
	"findall(F-V, current_prolog_flag(F, V), _U), sort(_U, L).",
	"X = \"abc\".",
	"findall(A-B, (current_char_conversion(A, B), A \\== B), L).",
	"current_output(S), current_input(I), stream_property(S, alias(AO)), stream_property(I, alias(AI)).",
	"findall(A, stream_property(_, alias(A)), _U), sort(_U, L).",
	"stream_property(S, alias(user_input)), stream_property(S, end_of_stream(E)), stream_property(S, position(P)).",
	"catch((stream_property(S, alias(user_output)), stream_property(S, position(P))), error(E, _), true).",
	"catch((at_end_of_stream -> R = at_end ; R = more), error(E, _), true).",
	"catch(iso_builtin, error(E, _), true).",
	"catch(undefined_iso_thing, error(E, _), true).",
	"number_codes(X, \"42\"), atom_chars(Y, \"ab\").",
	"catch(iso_init(X), error(E, _), true).",
	"peek_char(C).",
	"catch((consult(iso_lib), findall(X, iso_lib(X), L)), error(E, _), true).",
}

// the Go-level text of an error whose culprit is an operator term uses package-level write options
func c14ErrorText(p *prolog.Interpreter) string {
	sols, err := p.Query("atom_length(1 + 2 * 3, _).")
	if err != nil {
		return "query error " + err.Error()
	}
	for sols.Next() {
	}
	s := fmt.Sprint(sols.Err())
	sols.Close()
	return s
}

func c14Observe(p *prolog.Interpreter, out *bytes.Buffer) []string {
	var res []string
	for _, q := range c14Observers {
		before := out.Len()
		a := c14Answers(p, q)
		res = append(res, a+" >"+varNumRe.ReplaceAllString(out.String()[before:], "_"))
	}
	res = append(res, "errtext: "+c14ErrorText(p))
	return res
}

func c14IsolationRun(mi int, nilIO bool) (exp, act string, ok bool) {
	dir, _ := os.MkdirTemp("", "c14iso")
	defer os.RemoveAll(dir)
	wd, _ := os.Getwd()
	os.Chdir(dir)
	defer os.Chdir(wd)
	newI := func() (*prolog.Interpreter, *bytes.Buffer) {
		out := &bytes.Buffer{}
		if nilIO {
			// the documented "no I/O" configuration
			return prolog.New(nil, nil), out
		}
		return prolog.New(strings.NewReader("foo(1). bar. baz."), out), out
	}
	a, _ := newI()
	b, bout := newI()
	fresh, fout := newI()
	a.FS, b.FS, fresh.FS = c14FS("a"), c14FS("b"), c14FS("b")
	before := c14Observe(b, bout)
	if err := c14Mutators[mi].do(a); err != nil && !nilIO {
		return "the mutator runs in interpreter A", "mutator " + c14Mutators[mi].name + " failed: " + err.Error(), false
	}
	// B is observed again: its own observations consumed input / produced output, so compare with a
	// fresh interpreter that is observed twice as well
	after := c14Observe(b, bout)
	f1 := c14Observe(fresh, fout)
	f2 := c14Observe(fresh, fout)
	for i := range before {
		if before[i] != f1[i] {
			return "B before the mutation = a fresh interpreter: " + f1[i], before[i], false
		}
		if after[i] != f2[i] {
			q := "Go error text"
			if i < len(c14Observers) {
				q = c14Observers[i]
			}
			return fmt.Sprintf("observer %q in B after %s in A: %s", q, c14Mutators[mi].name, f2[i]), after[i], false
		}
	}
	return "", "", true
}

func c14Work(w *h.W) {
	// (c) isolation matrix - sequential
	for mi2 := 0; mi2 < 2*len(c14Mutators); mi2++ {
		mi, nilIO := mi2/2, mi2%2 == 1
		if !w.Mine() {
			continue
		}
		c := &c14Case{Kind: "isolation", Mutator: c14Mutators[mi].name, NilIO: nilIO}
		w.Guard(c)
		exp, act, ok := c14IsolationRun(mi, nilIO)
		w.Unguard()
		w.Eval(len(c14Observers) + 1)
		w.States(1)
		w.Transitions(len(c14Observers) + 1)
		w.Traces(1)
		w.Nontrivial(fmt.Sprint("iso:", c14Mutators[mi].name, nilIO))
		w.Outcome("isolation")
		if !ok {
			w.Violation("isolation: "+c14Mutators[mi].name+" leaks into another interpreter", c, exp, act, 1)
		}
	}
	// (f) fresh atoms across interpreters
	c14FreshAtoms(w)
	// (e) results kept by the caller across the whole goal matrix
	c14Retained(w)
	// (a) atom table: all pairs (triples) of short thread programs, all interleavings
	opsA := []string{"N:a", "N:b", "R:a"}
	var progs [][]string
	for _, o := range opsA {
		progs = append(progs, []string{o})
	}
	for _, o1 := range opsA {
		for _, o2 := range opsA {
			progs = append(progs, []string{o1, o2})
		}
	}
	bound := w.Pick(3, 6)
	for _, p0 := range progs {
		for _, p1 := range progs {
			if !w.Mine() {
				continue
			}
			if w.Expired() {
				return
			}
			c14Explore(w, &c14Case{Kind: "atoms", Programs: [][]string{p0, p1}}, bound, c14AtomsRun, 200000, false)
		}
	}
	for _, p0 := range progs[:3] {
		for _, p1 := range progs[:3] {
			for _, p2 := range progs[:w.Pick(3, 12)] {
				if !w.Mine() {
					continue
				}
				if w.Expired() {
					return
				}
				c14Explore(w, &c14Case{Kind: "atoms", Programs: [][]string{p0, p1, p2}}, w.Pick(2, 3), c14AtomsRun, 200000, false)
			}
		}
	}
	// (b) interpreters: pairs of one-query programs
	for i, q0 := range c14Queries {
		for j, q1 := range c14Queries {
			if !w.Thorough() && j < i {
				continue
			}
			if !w.Mine() {
				continue
			}
			if w.Expired() {
				return
			}
			c14Explore(w, &c14Case{Kind: "interp", Programs: [][]string{{q0}, {q1}}}, w.Pick(1, 2), c14InterpRun, w.Pick(20000, 200000), true)
		}
	}
	// (d) the free-running -race pass (a separate binary built with -race), once
	if w.Shard == 0 {
		c14RacePass(w)
	}
}

func c14RacePass(w *h.W) {
	cmd := exec.Command(h.Root+"/.build/vcheck-race", "C14race", w.Tier)
	cmd.Env = append(os.Environ(), "VERIF_WORKERS=2")
	var out bytes.Buffer
	cmd.Stdout = &out
	cmd.Stderr = &out
	w.GuardFor("race pass", 20*time.Minute)
	err := cmd.Run()
	w.Unguard()
	text := out.String()
	w.Extra("race_pass_ran", 1)
	for _, l := range strings.Split(text, "\n") {
		if strings.HasPrefix(l, "C14race ") {
			w.Note("race pass: " + l)
			var ev int64
			fmt.Sscanf(l[strings.Index(l, "evaluations="):], "evaluations=%d", &ev)
			w.Extra("race_pass_interpreter_runs", ev)
		}
	}
	if err != nil || strings.Contains(text, "VIOLATION") {
		sig := "race pass: the free-running -race pass reports a problem"
		if i := strings.Index(text, "signature: "); i >= 0 {
			l := text[i+11:]
			if j := strings.Index(l, "\n"); j > 0 {
				l = l[:j]
			}
			sig = "race pass: " + l
		}
		if len(text) > 3000 {
			text = text[:3000]
		}
		w.ViolationNoConfirm(sig, &c14Case{Kind: "race"}, "no data race, same answers", text)
	}
	w.Outcome("race-pass")
}

func c14Replay(b []byte) (string, string, bool) {
	var c c14Case
	if err := json.Unmarshal(b, &c); err != nil {
		return "", err.Error(), false
	}
	var probe struct {
		Kind  string   `json:"kind"`
		Goal  string   `json:"goal"`
		Goals []string `json:"procedure_goals"`
	}
	if json.Unmarshal(b, &probe) == nil && probe.Kind == "retained" {
		return c14RetainedReplay(probe.Goals)
	}
	if probe.Kind == "retained-all" {
		return c14RetainedAllReplay(probe.Goal)
	}
	var fc c14FreshCase
	if json.Unmarshal(b, &fc) == nil && fc.Fresh {
		return c14FreshRun(&fc)
	}
	switch c.Kind {
	case "isolation":
		for mi := range c14Mutators {
			if c14Mutators[mi].name == c.Mutator {
				return c14IsolationRun(mi, c.NilIO)
			}
		}
		return "", "unknown mutator", false
	case "atoms", "interp":
		run := c14AtomsRun
		if c.Kind == "interp" {
			run = c14InterpRun
		}
		problems, r := run(&c, c.Schedule)
		if r.Diverged != "" {
			return "", "schedule diverged: " + r.Diverged, false
		}
		if len(problems) == 0 {
			return "as a sequential execution", "ok", true
		}
		return "as a sequential execution", strings.Join(problems, "; "), false
	case "race":
		cmd := exec.Command(h.Root+"/.build/vcheck-race", "C14race", "quick")
		out, err := cmd.CombinedOutput()
		if err != nil || strings.Contains(string(out), "VIOLATION") {
			return "no data race", string(out), false
		}
		return "no data race", "none reported", true
	}
	return "", "unknown case", false
}

func init() {
	h.Register(&h.Check{
		ID: "C14",
		Rule: "(a) atom table: engine/atom.go and engine/variable.go are rebuilt with sync / sync/atomic routed through the scheduler shim; all pairs of thread programs of <= 2 operations (and all triples of 1-operation programs) over {NewAtom(a), NewAtom(b), NewAtom(a).String()} with names that are new in every execution, under every interleaving at the lock/unlock/atomic operations within a preemption bound; each recorded call/return history is checked for linearizability against a sequential name<->id map with porcupine, and afterwards every name has one id and every id one name; (b) pairs of interpreters each running one of 5 small queries (colliding atom creation, variable creation, error terms) under every schedule with at most D deviations from the default schedule (D = 1 quick, 2 thorough): each answers as it does alone; (c) isolation matrix: 19 mutators (clauses, loading, operators, flags, char conversions, streams, current output, Register, initialization, I/O) in interpreter A x 21 observers in interpreter B (listings, current_op/3, reading/writing operator-dependent terms, flags, char conversions, stream properties, the Go error text of an exception with an operator culprit): B's observations equal those of a fresh interpreter; (d) a free-running -race pass of 8 concurrently created/loaded/queried interpreters per round, plus one round in which 8 interpreters run the whole goal matrix at once; (e) results kept by the caller: interpreter A runs EVERY registered procedure x all tuples of 8 argument shapes (arity >= 4: 4 shapes, >= 6: 2) and its caller keeps each error value and raw first answer; interpreter B then runs the same goals; every kept value must render exactly as before B ran, and B's errors are A's; finally a third interpreter runs the whole matrix and every value still held is rendered once more; (f) fresh atoms: a name no interpreter has seen is first interned in interpreter A through each of 13 routes (parser, quoted writes of several kinds - which lex the name -, atom_codes, atom_chars, atom_concat, sub_atom, read_term, op/3, =..), interpreter B mentions it (by text / by atom_codes) and keeps the atom, A and a third interpreter create other names of the same length (four lengths) through every route, and B's atom must still be spelled as before and be the atom its name denotes. Distinct = scenario.; the isolation matrix also gives every interpreter a file system of its own in which a file of one name holds another text of the same size, loaded in 4 ways (consult/1, ensure_loaded/1, list notation, include/1)",
		Explanation: "state = scheduler state of a scenario (per-thread progress, lock state); transition = one lock/unlock/atomic/channel operation of the real code executed under the controlled scheduler; every complete schedule is one trace whose recorded history is validated against the sequential model; the race pass is dynamic analysis on free-running executions of the same kind of bodies",
		Assumptions: []string{"interleavings are explored at synchronisation operations only, up to the stated preemption bound (sequential consistency); unsynchronised accesses are left to the race detector pass", "variable numbers come from a process-wide counter and are not compared"},
		Work:        c14Work,
		Replay:      c14Replay,
		Sched:       true,
		QuickDeadline: 170 * time.Second, ThoroughDeadline: 30 * time.Minute,
	})
}
