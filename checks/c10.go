package checks

import (
	"encoding/json"
	"fmt"
	"os"
	"strings"
	"time"

	"github.com/ichiban/prolog/engine"

	"verif/h"
	"verif/ref"
)

// C10 — a stored clause is the clause that was given, and it executes as that clause.

func c10Leaves() []T { return []T{A("a"), V("X"), V("Y"), ref.Nil, Cm("$str", A("ab"))} }

var c10Funs = []Functor{{"f", 1}, {"g", 2}, {".", 2}, {"$dot", 2}, {"$bar", 2}}

// universe of argument terms: all terms of depth <= 1, plus one more level around every depth-1 term
func c10Universe(full bool) (u1, u2 []T) {
	u1 = termsUpTo(c10Leaves(), c10Funs, 1)
	u2 = append(u2, u1...)
	leaves := c10Leaves()
	if !full {
		leaves = leaves[:3]
	}
	for _, t := range u1 {
		if _, ok := t.(*ref.Cmp); !ok {
			continue
		}
		if c, ok := t.(*ref.Cmp); ok && c.F == "$str" {
			continue
		}
		u2 = append(u2, Cm("f", t))
		for _, l := range leaves {
			u2 = append(u2, Cm("g", t, l), Cm("g", l, t), Cm(".", t, l), Cm(".", l, t))
		}
	}
	return
}

type c10Case struct {
	h.ProgCase
	// Decompile: name/arity of the predicate whose compiled clauses are decompiled and compared
	// with Expect (clause terms after the asserting query's bindings were applied)
	DecName  string       `json:"dec_name"`
	DecArity int          `json:"dec_arity"`
	Expect   []*ref.JTerm `json:"expect"`
}

// expectedClauses: what the compiled clauses must denote: bindings applied, variable goals as
// call/1, a top-level disjunctive body split into one clause per alternative.
func expectedClauses(c T, dq string) []T {
	c = ref.ExpandStrings(c, dq)
	head, body := c, T(nil)
	if cc, ok := c.(*ref.Cmp); ok && cc.F == ":-" && len(cc.Args) == 2 {
		head, body = cc.Args[0], cc.Args[1]
	}
	if body == nil {
		return []T{head}
	}
	var alts []T
	var split func(t T)
	split = func(t T) {
		t = ref.Deref(t)
		if d, ok := t.(*ref.Cmp); ok && d.F == ";" && len(d.Args) == 2 {
			// an if-then-else is not split
			if l, ok := ref.Deref(d.Args[0]).(*ref.Cmp); ok && l.F == "->" && len(l.Args) == 2 {
				alts = append(alts, t)
				return
			}
			alts = append(alts, d.Args[0])
			split(d.Args[1])
			return
		}
		alts = append(alts, t)
	}
	split(body)
	var out []T
	for _, a := range alts {
		// conjunction flattened on the right spine, variable goals wrapped
		var goals []T
		for {
			a = ref.Deref(a)
			if cj, ok := a.(*ref.Cmp); ok && cj.F == "," && len(cj.Args) == 2 {
				goals = append(goals, wrapVar(cj.Args[0]))
				a = cj.Args[1]
				continue
			}
			goals = append(goals, wrapVar(a))
			break
		}
		out = append(out, Cm(":-", head, conj(goals...)))
	}
	return out
}

func wrapVar(t T) T {
	if v, ok := ref.Deref(t).(*ref.Var); ok {
		return Cm("call", v)
	}
	return ref.Deref(t)
}

func c10Run(c *c10Case) (exp, act, sig, outcome string, ok bool, steps int, inconc bool) {
	im := h.NewImpl()
	res, first, inc := h.RunProgOn(im, &c.ProgCase)
	steps = len(res)
	if first >= 0 {
		r := res[first]
		st := c.Steps[first]
		kind := "behaviour"
		if strings.HasPrefix(st.Text, "clause(") || strings.Contains(st.Text, "clause(") {
			kind = "clause/2"
		}
		if strings.Contains(st.Text, "retract(") {
			kind = "retract/1"
		}
		return r.RefState + " " + strings.Join(r.RefAns, " | ") + " " + r.RefErr, r.Impl.String() + " (" + r.Why + ")",
			"stored: " + kind + ": " + whyClass(r.Why), "differ", false, steps, inc
	}
	if inc {
		return "", "", "", "inconclusive", true, steps, true
	}
	// decompile
	if c.DecName != "" {
		vcs, found := engine.VerifClauses(&im.P.VM, c.DecName, c.DecArity)
		if !found {
			return "procedure exists", "no user-defined procedure " + c.DecName, "compiled: procedure missing", "differ", false, steps, false
		}
		if len(vcs) != len(c.Expect) {
			return fmt.Sprintf("%d compiled clauses", len(c.Expect)), fmt.Sprintf("%d compiled clauses", len(vcs)), "compiled: clause count", "differ", false, steps, false
		}
		for i, vc := range vcs {
			want := ref.Dec(c.Expect[i], map[string]*ref.Var{})
			got, err := h.Decompile(c.DecName, c.DecArity, vc)
			if err != nil {
				return ref.Text(want), err.Error(), "compiled: malformed instruction sequence", "differ", false, steps, false
			}
			if !ref.Variant(want, got) {
				return ref.Text(want), ref.Text(got), "compiled: bytecode denotes a different clause", "differ", false, steps, false
			}
		}
	}
	return "", "", "", "agree", true, steps, false
}

func c10Emit(w *h.W, c *c10Case, size int) {
	w.Guard(c)
	exp, act, sig, outcome, ok, steps, inc := c10Run(c)
	w.Unguard()
	w.Eval(1)
	w.States(1)
	w.Transitions(steps + 1)
	w.Outcome(outcome)
	if inc {
		w.Inconclusive(1)
	} else {
		w.Traces(1)
		w.Nontrivial(c.Describe())
	}
	w.Sample(c.Describe())
	if !ok {
		w.Violation(sig, c, exp, act, size)
	}
}

// c10Build makes the case for clause term cl given through path ("consult" or "assertz") after
// the goals pre (which bind variables of cl in the asserting query).
func c10Build(cl T, pre []T, path string, dq string) *c10Case {
	head := cl
	if cc, ok := cl.(*ref.Cmp); ok && cc.F == ":-" && len(cc.Args) == 2 {
		head = cc.Args[0]
	}
	name, arity, _ := ref.Indicator(head)
	c := &c10Case{DecName: name, DecArity: arity}
	c.DQ = dq
	support := rdAll("e(Z, Z). b(_). k(1). k(2).")
	dyn := Cm(":-", Cm("dynamic", Cm("/", A(name), I(int64(arity)))))
	// what the clause is after the asserting query's bindings
	bound := cl
	if path == "consult" {
		c.Steps = append(c.Steps, h.Consult(append(append([]T{}, support...), dyn, cl)...))
	} else {
		c.Steps = append(c.Steps, h.Consult(append(append([]T{}, support...), dyn)...))
		goal := conj(append(append([]T{}, pre...), Cm("assertz", cl))...)
		c.Steps = append(c.Steps, h.Query(goal, 2))
		// run pre on the reference machine to know the expected stored clause
		world := ref.NewWorld(ref.NewDB(), 1000)
		m := world.NewMachine(ref.ExpandStrings(conj(pre...), dqOrDefault(dq)))
		if okb, _, err := m.Next(); !okb || err != nil {
			panic("c10: pre-goals fail in the reference")
		}
		bound = ref.Resolve(ref.ExpandStrings(cl, dqOrDefault(dq)))
		world.Trail.Undo(0)
	}
	for _, e := range expectedClauses(bound, dqOrDefault(dq)) {
		c.Expect = append(c.Expect, ref.Enc(e))
	}
	// observations, all made from later queries
	hv := make([]T, arity)
	for i := range hv {
		hv[i] = V(fmt.Sprintf("A%d", i+1))
	}
	var hgen T = A(name)
	if arity > 0 {
		hgen = &ref.Cmp{F: name, Args: hv}
	}
	cq := h.Query(Cm("clause", hgen, V("B")), 6)
	cq.Norm = "callvar"
	c.Steps = append(c.Steps, cq)
	c.Steps = append(c.Steps, h.Query(hgen, 6))
	probes := []T{A("a"), Cm("f", V("P")), ref.PList(V("Q"), V("P")), ref.List(A("a"), A("b")), Cm("g", V("P"), V("P")), ref.Nil}
	for i := 0; i < arity; i++ {
		for _, p := range probes {
			args := append([]T{}, hv...)
			args[i] = p
			c.Steps = append(c.Steps, h.Query(&ref.Cmp{F: name, Args: args}, 6))
		}
	}
	return c
}

func dqOrDefault(dq string) string {
	if dq == "" {
		return h.DefaultDQ()
	}
	return dq
}

func c10Work(w *h.W) {
	// S7: a clause asserted and looked up again WITHIN one query, the query's still unbound variables reappearing at
	// other positions of the clause/2, retract/1 pattern (the stored clause is renamed apart from its asserting query)
	if w.Mine() {
		pc := &h.ProgCase{Steps: []h.ProgStep{h.Consult(rd(":- dynamic(h/2)"), rd(":- dynamic(k/1)"))}}
		for _, q := range []string{
			"assertz(h(X, a)), retract(h(b, X))", "assertz(h(X, a)), clause(h(b, X), true)", "assertz(h(X, Y)), retract(h(Y, X)), X = 1", "assertz(h(X, X)), retract(h(1, Y))",
			"assertz((k(X) :- h(X, Y))), retract((k(Y) :- h(Y, X)))", "assertz((k(X) :- h(X, Y))), clause(k(Y), B)", "assertz(h(f(X), a)), retract(h(f(b), X))",
			"assertz(h([X|T], T)), retract(h([a, b], X))", "assertz(h(X, a)), X = c, retract(h(b, Z))", "assertz(h(X, a)), retractall(h(b, X)), findall(P-Q, h(P, Q), L)",
			"findall(P-Q, clause(h(P, Q), true), L)",
		} {
			pc.Steps = append(pc.Steps, h.Query(rd(q), 5))
		}
		runProgCase(w, "S7 same-query", pc, 1)
	}
	// S6: the number of clauses of a predicate swept 1..24 (40), first head arguments of every kind, loaded and
	// asserted, called with every first argument in every representation (shared with C01 F7)
	clauseCountSweep(w, "S6 clause-count")
	// S8: the clauses of a predicate standing in two or three runs of every length with other predicates between them
	discontiguousRuns(w, "S8 discontiguous runs")
	u1, u2 := c10Universe(w.Thorough())
	paths := []string{"consult", "assertz"}
	// S1: facts with every argument term
	for _, t := range u2 {
		for _, p := range paths {
			if !w.Mine() {
				continue
			}
			if w.Expired() {
				return
			}
			c10Emit(w, c10Build(Cm("h", t), nil, p, ""), ref.Size(t))
		}
	}
	// S2: rules whose body builds a term: h(T1, R) :- e(T2, R)
	for i, t1 := range u1 {
		for j, t2 := range u1 {
			if !w.Thorough() && (i+j)%3 != 0 && i != j {
				continue // quick: a fixed third of the pairs plus the diagonal
			}
			for _, p := range paths {
				if !w.Mine() {
					continue
				}
				if w.Expired() {
					return
				}
				c10Emit(w, c10Build(Cm(":-", Cm("h", t1, V("R")), Cm("e", t2, V("R"))), nil, p, ""), ref.Size(t1)+ref.Size(t2))
			}
		}
	}
	// S3: two body goals, variable goals, disjunctive bodies, many variables
	shapes := []string{
		"h(X, R) :- e(f(X), M), e(g(M, Y), R)",
		"h(X, R) :- e([X|T], M), e([M, T], R)",
		"h(G, R) :- G, e(done, R)",
		"h(G) :- call(G)",
		"h(G, R) :- e(G, R), G",
		"h(X) :- (X = a ; X = b)",
		"h(X, Y) :- e(X, a) ; e(Y, b)",
		"h(X, Y) :- e(X, a), k(Y) ; e(Y, b) ; k(X), k(Y)",
		"h(X, Y) :- (k(X) -> Y = t ; Y = e)",
		"h(X) :- k(X), !",
		"h(X, Y) :- k(X), !, k(Y)",
		"h(A1, A2, A3, A4, A5, A6, A7, A8, A9, A10, A11, A12, A13, A14, A15, A16, X, X)",
		"h(A1, A2, A3, A4, A5, A6, A7, A8, A9, A10, A11, A12, A13, A14, A15, A16, A17, X, Y) :- e(f(X, A17), Y)",
		"h(R) :- e([A1, A2, A3, A4, A5, A6, A7, A8, A9, A10, A11, A12, A13, A14, A15, A16, A17, A18, A17, A18], R)",
		"h([A, B, C|T], R) :- e(w(A, B, C, T), R)",
		"h(\"ab\", R) :- e(\"ab\", R)",
		"h(f(\"ab\", [\"ab\"|T]), T)",
		"h",
		"h :- k(_)",
	}
	for _, s := range shapes {
		for _, p := range paths {
			for _, dq := range []string{"", "chars", "atom"} {
				if !w.Mine() {
					continue
				}
				c10Emit(w, c10Build(rd(s), nil, p, dq), 3)
			}
		}
	}
	// S3b: sweep of the number of distinct variables (any size-dependent path of the compiler)
	for n := 0; n <= w.Pick(40, 80); n++ {
		for _, p := range paths {
			if !w.Mine() {
				continue
			}
			var as []T
			for i := 1; i <= n; i++ {
				as = append(as, V(fmt.Sprintf("A%d", i)))
			}
			// the (n+1)-th variable occurs twice in the head, and again in the body
			c10Emit(w, c10Build(&ref.Cmp{F: "h", Args: append(append([]T{}, as...), V("X"), V("X"))}, nil, p, ""), n)
			c10Emit(w, c10Build(Cm(":-", Cm("h", ref.List(as...), V("X"), V("R")), Cm("e", Cm("f", V("X"), ref.List(as...)), V("R"))), nil, p, ""), n)
			// top-level disjunctive bodies behind heads of every size
			{
				dv0 := map[string]*ref.Var{}
				hd0 := renameVarsKeep(&ref.Cmp{F: "h", Args: append(append([]T{}, as...), V("X"))}, dv0)
				c10Emit(w, c10Build(Cm(":-", hd0, rdv("(X = small ; X = big)", dv0)), nil, p, ""), n)
			}
			hd := &ref.Cmp{F: "h", Args: append(append([]T{}, as...), V("X"), V("Y"))}
			dv := map[string]*ref.Var{}
			c10Emit(w, c10Build(Cm(":-", renameVarsKeep(hd, dv), rdv("(k(X) ; e(Y, b), k(X) ; fail ; e(X, Y))", dv)), nil, p, ""), n)
		}
	}
	// S4: variables already bound in the asserting query, observed from later queries
	pres := [][]string{
		{"X = a"}, {"X = f(Y)"}, {"X = [a|Y]"}, {"X = Y"}, {"Y = [X]"}, {"X = \"ab\""}, {"X = f(Z)", "Z = b"}, {"X = [Y, Z]"}, {"X = k(1)"},
		{"append(\"ab\", T, X)"}, {"append('.'(a, []), T, X)"}, {"atom_chars(ab, P)", "append(P, [c|T], X)"}, {"append([a], T, X)", "T = [b]"},
		{"X = [k-V]", "V = 1"}, {"X = [pair(K, V)]", "V = 2"}, {"X = [[V]]", "V = 3"}, {"X = '.'(V, [])", "V = 4"},
	}
	bound := []string{
		"h(X)", "h(X, Y)", "h([X])", "h([X|Y])", "h(f(X), [Y, X])", "h(g(X, X))",
		"h(R) :- e(X, R)", "h(Y, R) :- e(X, R)", "h(R) :- e([X], R)", "h(R) :- e([z|X], R)", "h(R) :- e(f(X, Y), R)", "h(X, R) :- e(Y, R)",
		"h(R) :- e(a, M), e(g(M, X), R)", "h(R) :- (e(X, R) ; e(Y, R))", "h(R) :- X, e(ok, R)", "h(X) :- b(X)",
	}
	for _, b := range bound {
		for _, pre := range pres {
			if !w.Mine() {
				continue
			}
			vars := map[string]*ref.Var{}
			cl := rdv(b, vars)
			var pg []T
			for _, g := range pre {
				pg = append(pg, rdv(g, vars))
			}
			c10Emit(w, c10Build(cl, pg, "assertz", ""), 4)
		}
	}
	// S5: every clause of bootstrap.pl: the compiled form denotes the source clause
	if w.Shard == 0 {
		c10Bootstrap(w)
	}
}

type c10BootCase struct {
	Boot   bool       `json:"bootstrap"`
	Name   string     `json:"name"`
	Arity  int        `json:"arity"`
	Index  int        `json:"index"`
	Source *ref.JTerm `json:"source"`
}

func c10BootClauses() (map[string][]T, []string, error) {
	b, err := os.ReadFile("/repo/bootstrap.pl")
	if err != nil {
		return nil, nil, err
	}
	src := string(b)
	// strip the block comment
	for {
		i := strings.Index(src, "/*")
		if i < 0 {
			break
		}
		j := strings.Index(src[i:], "*/")
		if j < 0 {
			break
		}
		src = src[:i] + src[i+j+2:]
	}
	ts, err := ref.ReadAll(src)
	if err != nil {
		return nil, nil, err
	}
	byPred := map[string][]T{}
	var order []string
	for _, t := range ts {
		if d, ok := t.(*ref.Cmp); ok && d.F == ":-" && len(d.Args) == 1 {
			continue
		}
		for _, e := range expectedClauses(t, "chars") {
			head := e
			if cc, ok := e.(*ref.Cmp); ok && cc.F == ":-" && len(cc.Args) == 2 {
				head = cc.Args[0]
			}
			n, a, _ := ref.Indicator(head)
			k := ref.Key(n, a)
			if _, ok := byPred[k]; !ok {
				order = append(order, k)
			}
			byPred[k] = append(byPred[k], e)
		}
	}
	return byPred, order, nil
}

func c10BootRun(name string, arity, idx int, want T) (exp, act string, ok bool) {
	im := h.NewImpl()
	vcs, found := engine.VerifClauses(&im.P.VM, name, arity)
	if !found || idx >= len(vcs) {
		return ref.Text(want), fmt.Sprintf("procedure %s/%d has %d compiled clauses", name, arity, len(vcs)), false
	}
	got, err := h.Decompile(name, arity, vcs[idx])
	if err != nil {
		return ref.Text(want), err.Error(), false
	}
	if !ref.Variant(want, got) {
		return ref.Text(want), ref.Text(got), false
	}
	return ref.Text(want), ref.Text(got), true
}

func c10Bootstrap(w *h.W) {
	byPred, order, err := c10BootClauses()
	if err != nil {
		w.Note("bootstrap.pl could not be read by the reference reader: " + err.Error())
		w.Violation("bootstrap: unreadable", &c10BootCase{Boot: true}, "readable bootstrap.pl", err.Error(), 1)
		return
	}
	n := 0
	for _, k := range order {
		var name string
		var arity int
		i := strings.LastIndex(k, "/")
		name = k[:i]
		fmt.Sscanf(k[i+1:], "%d", &arity)
		im := h.NewImpl()
		vcs, _ := engine.VerifClauses(&im.P.VM, name, arity)
		if len(vcs) != len(byPred[k]) {
			w.Violation("bootstrap: clause count", &c10BootCase{Boot: true, Name: name, Arity: arity, Index: -1}, fmt.Sprintf("%d clauses", len(byPred[k])), fmt.Sprintf("%d compiled clauses", len(vcs)), 1)
			continue
		}
		for idx, want := range byPred[k] {
			exp, act, ok := c10BootRun(name, arity, idx, want)
			w.Eval(1)
			w.States(1)
			w.Transitions(1)
			w.Traces(1)
			w.Nontrivial("boot:" + k + fmt.Sprint(idx))
			w.Outcome("bootstrap-clause")
			n++
			if !ok {
				w.Violation("bootstrap: bytecode denotes a different clause", &c10BootCase{Boot: true, Name: name, Arity: arity, Index: idx, Source: ref.Enc(want)}, exp, act, 1)
			}
		}
	}
	w.Extra("bootstrap_clauses_decompiled", int64(n))
}

func c10Replay(b []byte) (string, string, bool) {
	var bc c10BootCase
	if json.Unmarshal(b, &bc) == nil && bc.Boot {
		if bc.Source == nil {
			return "", "bootstrap structure differs", false
		}
		return c10BootRun(bc.Name, bc.Arity, bc.Index, ref.Dec(bc.Source, map[string]*ref.Var{}))
	}
	var c c10Case
	if err := json.Unmarshal(b, &c); err != nil {
		return "", err.Error(), false
	}
	exp, act, _, _, ok, _, _ := c10Run(&c)
	return exp, act, ok
}

func init() {
	h.Register(&h.Check{
		ID: "C10",
		Rule: "all clause terms of the enumerated families: S1 facts h(T) for every T of a universe of argument terms (all terms of depth <= 1 over {a,X,Y,[],\"ab\",f/1,g/2} with lists in bracket, [H|T], './2 and string notation, plus one more level around each); S2 rules h(T1,R) :- e(T2,R) for pairs of universe terms; S3 hand-picked shapes (two body goals, variable goals, top-level disjunctions, if-then-else, cuts, 17+ variables, strings under each double_quotes flag); S4 16 clause shapes x 13 bindings made in the asserting query before assertz (incl. variables inside list elements), observed from later queries; each through Exec and through assertz; S5 every clause of bootstrap.pl. Non-trivial = decided case; distinct = case text. S6: the number of clauses of one predicate swept 1..24 (40) with first head arguments of every kind (atoms, numbers, strings, lists, compounds, variables, non-ASCII), loaded and asserted, called with 29 first arguments in every representation. S7: 11 queries that assert a clause and look it up again (clause/2, retract/1, retractall/1) within the same query with the query's unbound variables at other positions of the pattern. S8: predicates whose clauses stand in two or three runs (discontiguous/1) of every length 1..17 (34) with 1..3 clauses of other predicates between them, against the reference's reading of the same text.",
		Explanation: "state = a fresh real interpreter with the clause added through one path; transitions = (1) clause/2 listing, (2) calls with every argument pattern, compared with the reference machine executing the SOURCE term, and (3) decompilation of the stored bytecode (read through a verif-tagged accessor injected with -overlay) by an independent inverse of the clause compiler, compared with the source term up to variable renaming",
		Assumptions: []string{"clause/2 bodies are compared modulo call(V) ~ V for an unbound goal variable (ISO stores call(V); the property asks for a variant of the given term)", "bootstrap.pl is read by the harness's own reader (fixed operator table) - not by the implementation's parser"},
		Work:        c10Work,
		Replay:      c10Replay,
		QuickDeadline: 150 * time.Second, ThoroughDeadline: 25 * time.Minute,
	})
}

// renameVarsKeep re-creates t with variables taken from / added to the pool vars (by name).
func renameVarsKeep(t T, vars map[string]*ref.Var) T {
	switch x := t.(type) {
	case *ref.Var:
		if v, ok := vars[x.Name]; ok {
			return v
		}
		v := V(x.Name)
		vars[x.Name] = v
		return v
	case *ref.Cmp:
		args := make([]T, len(x.Args))
		for i, a := range x.Args {
			args[i] = renameVarsKeep(a, vars)
		}
		return &ref.Cmp{F: x.F, Args: args}
	}
	return t
}
