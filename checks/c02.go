package checks

import (
	"encoding/json"
	"fmt"
	"sort"
	"strings"
	"time"

	"github.com/ichiban/prolog/engine"

	"verif/h"
	"verif/ref"
)

// C02 — unification yields a most general unifier, whatever the term representation.

func c02Universe(thorough bool) []T {
	leaves := []T{A("a"), I(1), V("X"), V("Y"), ref.Nil}
	if thorough {
		leaves = []T{A("a"), A("b"), I(1), ref.Flt(1.0), V("X"), V("Y"), V("Z"), ref.Nil}
	}
	d := 2
	funs := []Functor{{"f", 1}, {"g", 2}, {".", 2}}
	u := termsUpTo(leaves, funs, 1)
	if thorough {
		return u // 8 + 8 + 64 + 64 = 144 terms of depth <= 1; pairs of depth-2 terms are in the second family
	}
	_ = d
	return u
}

// second family: one side of depth 2, the other of depth <= 1 (reduced leaves)
func c02Deep() []T {
	return termsUpTo([]T{A("a"), V("X"), V("Y"), ref.Nil}, []Functor{{"f", 1}, {"g", 2}, {".", 2}}, 2)
}

func c02PairCase(s, t T) *h.ProgCase {
	pc := &h.ProgCase{}
	sto := ref.STO(s, t)
	q := func(g T) { pc.Steps = append(pc.Steps, h.Query(g, 3)) }
	obs := func(g T) T { return g }
	if !sto {
		q(obs(Cm("=", s, t)))                                   // (1)(3) success and mgu (variant of the reference's)
		q(Cm("=", t, s))                                        // (4) symmetric
		q(Cm(",", Cm("=", s, t), Cm("==", s, t)))               // (2) identical afterwards
		q(Cm(";", Cm("->", Cm("=", s, t), Cm("=", V("R"), A("yes"))), Cm("=", V("R"), A("no")))) // (5) no binding after failure
		q(Cm(",", Cm("\\+", Cm("=", s, t)), Cm("=", V("R"), A("no"))))
		q(Cm("\\=", s, t))
	}
	q(Cm("unify_with_occurs_check", s, t)) // (6)
	q(Cm("unify_with_occurs_check", t, s))
	q(Cm("subsumes_term", s, t)) // (8)
	q(Cm("subsumes_term", t, s))
	q(Cm("copy_term", Cm("-", s, t), V("C")))
	return pc
}

func c02HeadCase(s T, ts []T) *h.ProgCase {
	// (7) clause-head unification: fact h(S), next clause must see no binding of a failed attempt
	pc := &h.ProgCase{Steps: []h.ProgStep{h.Consult(Cm("h", s, A("first")), Cm("h", V("Any"), A("second")))}}
	for _, t := range ts {
		t2 := renameVars(t, "Q")
		if ref.STO(s, t2) {
			continue
		}
		pc.Steps = append(pc.Steps, h.Query(Cm("h", t2, V("Which")), 3))
	}
	return pc
}

// ---- recipes: every way the system offers to build a list ----------------------------------

type c02Recipe struct {
	name string
	// goals that bind L (variable name given) to the abstract list; nil if not applicable
	build func(elems []T, l *ref.Var, k int) []T
}

func allChars(elems []T) (string, bool) {
	var sb strings.Builder
	for _, e := range elems {
		a, ok := e.(ref.Atom)
		if !ok || len([]rune(string(a))) != 1 {
			return "", false
		}
		sb.WriteString(string(a))
	}
	return sb.String(), true
}

func allCodes(elems []T) (string, bool) {
	var sb strings.Builder
	for _, e := range elems {
		i, ok := e.(ref.Int)
		if !ok || i < 32 || i > 0x10ffff {
			return "", false
		}
		sb.WriteRune(rune(i))
	}
	return sb.String(), true
}

func c02Recipes() []c02Recipe {
	tv := func(k int, n string) *ref.Var { return V(fmt.Sprintf("%s%d", n, k)) }
	return []c02Recipe{
		{"bracket", func(e []T, l *ref.Var, k int) []T { return []T{Cm("=", l, ref.List(e...))} }},
		{"bar-nested", func(e []T, l *ref.Var, k int) []T {
			var t T = ref.Nil
			for i := len(e) - 1; i >= 0; i-- {
				t = Cm("$bar", e[i], t)
			}
			return []T{Cm("=", l, t)}
		}},
		{"partial-then-bind", func(e []T, l *ref.Var, k int) []T {
			if len(e) < 2 {
				return nil
			}
			return []T{Cm("=", l, ref.PList(tv(k, "T"), e[:1]...)), Cm("=", tv(k, "T"), ref.List(e[1:]...))}
		}},
		{"bind-then-partial", func(e []T, l *ref.Var, k int) []T {
			if len(e) < 2 {
				return nil
			}
			return []T{Cm("=", tv(k, "T"), ref.List(e[len(e)-1:]...)), Cm("=", l, ref.PList(tv(k, "T"), e[:len(e)-1]...))}
		}},
		{"dot-compound", func(e []T, l *ref.Var, k int) []T {
			var t T = ref.Nil
			for i := len(e) - 1; i >= 0; i-- {
				t = Cm("$dot", e[i], t)
			}
			return []T{Cm("=", l, t)}
		}},
		{"string-chars", func(e []T, l *ref.Var, k int) []T {
			s, ok := allChars(e)
			if !ok || len(e) == 0 {
				return nil
			}
			return []T{Cm("atom_chars", A(s), l)}
		}},
		{"string-codes", func(e []T, l *ref.Var, k int) []T {
			s, ok := allCodes(e)
			if !ok || len(e) == 0 {
				return nil
			}
			return []T{Cm("atom_codes", A(s), l)}
		}},
		{"dq-literal", func(e []T, l *ref.Var, k int) []T {
			// the case sets double_quotes=chars; for codes lists the recipe below is used
			s, ok := allChars(e)
			if !ok || len(e) == 0 {
				return nil
			}
			return []T{Cm("=", l, Cm("$str", A(s)))}
		}},
		{"append", func(e []T, l *ref.Var, k int) []T {
			if len(e) < 1 {
				return nil
			}
			return []T{Cm("append", ref.List(e[:1]...), ref.List(e[1:]...), l)}
		}},
		{"append-open", func(e []T, l *ref.Var, k int) []T {
			if len(e) < 2 {
				return nil
			}
			return []T{Cm("append", ref.List(e[:len(e)-1]...), tv(k, "T"), l), Cm("=", tv(k, "T"), ref.List(e[len(e)-1:]...))}
		}},
		{"univ", func(e []T, l *ref.Var, k int) []T {
			return []T{Cm("=..", &ref.Cmp{F: "foo", Args: append([]T{A("z")}, e...)}, ref.PList(l, A("foo"), A("z")))}
		}},
		{"findall", func(e []T, l *ref.Var, k int) []T {
			for _, x := range e {
				if _, isVar := x.(*ref.Var); isVar {
					return nil // findall copies variables: a different abstract list
				}
			}
			return []T{Cm("findall", tv(k, "E"), Cm("member", tv(k, "E"), ref.List(e...)), l)}
		}},
		{"length-then-bind", func(e []T, l *ref.Var, k int) []T {
			return []T{Cm("length", l, I(int64(len(e)))), Cm("=", l, ref.List(e...))}
		}},
		// a string (compact representation) as the prefix of an open list that is completed afterwards
		{"append-string-open", func(e []T, l *ref.Var, k int) []T {
			if len(e) < 2 {
				return nil
			}
			s, ok := allChars(e[:len(e)-1])
			if !ok {
				return nil
			}
			return []T{Cm("append", Cm("$str", A(s)), tv(k, "T"), l), Cm("=", tv(k, "T"), ref.List(e[len(e)-1:]...))}
		}},
		{"append-atom_chars-open", func(e []T, l *ref.Var, k int) []T {
			if len(e) < 2 {
				return nil
			}
			s, ok := allChars(e[:len(e)-1])
			if !ok {
				return nil
			}
			return []T{Cm("atom_chars", A(s), tv(k, "P")), Cm("append", tv(k, "P"), tv(k, "T"), l), Cm("=", tv(k, "T"), ref.List(e[len(e)-1:]...))}
		}},
		{"append-atom_codes-open", func(e []T, l *ref.Var, k int) []T {
			if len(e) < 2 {
				return nil
			}
			s, ok := allCodes(e[:len(e)-1])
			if !ok {
				return nil
			}
			return []T{Cm("atom_codes", A(s), tv(k, "P")), Cm("append", tv(k, "P"), tv(k, "T"), l), Cm("=", tv(k, "T"), ref.List(e[len(e)-1:]...))}
		}},
	}
}

func c02AbstractLists(maxLen int) [][]T {
	elems := []T{A("a"), A("b"), I(97), V("X"), A("日"), I(26085)}
	var out [][]T
	for n := 0; n <= maxLen; n++ {
		seqs(n, len(elems), func(idx []int) bool {
			l := make([]T, n)
			for i, j := range idx {
				l[i] = elems[j]
			}
			out = append(out, l)
			return true
		})
		if n == 0 {
			out = out[:1]
		}
	}
	return out
}

func c02RecipeWork(w *h.W) {
	recipes := c02Recipes()
	lists := c02AbstractLists(w.Pick(2, 3))
	for _, la := range lists {
		for _, lb := range lists {
			if !w.Mine() {
				continue
			}
			if w.Expired() {
				return
			}
			pc := &h.ProgCase{DQ: "chars"}
			for _, ra := range recipes {
				for _, rb := range recipes {
					ga := ra.build(la, V("LA"), 1)
					gb := rb.build(lb, V("LB"), 2)
					if ga == nil || gb == nil {
						continue
					}
					goals := append(append([]T{}, ga...), gb...)
					if ref.STO(ref.List(la...), ref.List(lb...)) {
						continue
					}
					pc.Steps = append(pc.Steps,
						h.Query(conj(append(append([]T{}, goals...), Cm("=", V("LA"), V("LB")))...), 3),
						h.Query(conj(append(append([]T{}, goals...), Cm(";", Cm("->", Cm("=", V("LA"), V("LB")), Cm("=", V("R"), A("yes"))), Cm("=", V("R"), A("no"))))...), 3),
						h.Query(conj(append(append([]T{}, goals...), Cm("unify_with_occurs_check", V("LB"), V("LA")))...), 3),
						h.Query(conj(append(append([]T{}, goals...), Cm("==", V("LA"), V("LB")))...), 3))
				}
			}
			runProgCase(w, "recipes", pc, len(la)+len(lb))
		}
	}
	// clause-head unification: the list written in the head in each literal notation (also nested in
	// a compound and as a prefix of a partial list), called with the list built through each recipe
	literal := []int{0, 1, 4, 7} // bracket, bar-nested, dot-compound, dq-literal
	for _, la := range lists {
		if !w.Mine() {
			continue
		}
		var cls []T
		for _, ri := range literal {
			g := recipes[ri].build(la, V("L"), 1)
			if g == nil {
				continue
			}
			lit := g[0].(*ref.Cmp).Args[1]
			tag := A(recipes[ri].name)
			cls = append(cls, Cm("h", lit, tag), Cm("hf", Cm("f", lit, V("Z")), tag), Cm("hp", Cm(".", lit, V("Z")), tag))
		}
		// group the clauses by predicate
		sort.SliceStable(cls, func(i, j int) bool { return cls[i].(*ref.Cmp).F < cls[j].(*ref.Cmp).F })
		pc := &h.ProgCase{DQ: "chars", Steps: []h.ProgStep{h.Consult(cls...)}}
		for _, lb := range lists {
			if ref.STO(ref.List(la...), renameVars(ref.List(lb...), "Q")) {
				continue
			}
			for _, rb := range recipes {
				gb := rb.build(lb, V("LB"), 2)
				if gb == nil {
					continue
				}
				for i := range gb {
					gb[i] = renameVarsExcept(gb[i], "Q", "LB")
				}
				pc.Steps = append(pc.Steps,
					h.Query(conj(append(append([]T{}, gb...), Cm("h", V("LB"), V("W")))...), 6),
					h.Query(conj(append(append([]T{}, gb...), Cm("hf", Cm("f", V("LB"), A("z")), V("W")))...), 6),
					h.Query(conj(append(append([]T{}, gb...), Cm("hp", ref.PList(V("Tl"), V("LB")), V("W")))...), 6))
			}
		}
		runProgCase(w, "head-recipes", pc, len(la))
	}
	// asserted heads: the list is built through each recipe (so that it is held in each internal
	// representation, open ones included) and THEN stored as the argument of a clause head by assertz/1;
	// the clause is called with the same list, a longer one, a shorter one, an open one and a variable
	for _, la := range lists {
		if !w.Mine() {
			continue
		}
		if w.Expired() {
			return
		}
		for _, ra := range recipes {
			ga := ra.build(la, V("L"), 1)
			if ga == nil {
				continue
			}
			pc := &h.ProgCase{DQ: "chars"}
			lt := ref.List(la...)
			longer := ref.List(append(append([]T{}, la...), A("z"))...)
			var shorter T = ref.Nil
			if len(la) > 0 {
				shorter = ref.List(la[:len(la)-1]...)
			}
			calls := []T{
				Cm("ah", renameVars(lt, "Q")), Cm("ah", V("Free")), Cm("ah", renameVars(longer, "Q")), Cm("ah", renameVars(shorter, "Q")),
				Cm("ah", ref.PList(V("Tl"), renameVars(lt, "Q").(T))), Cm("ah2", Cm("f", V("Free"), V("Z"))), Cm("ah3", V("Hd"), renameVars(lt, "Q")),
				Cm("clause", Cm("ah", V("Free")), A("true")),
			}
			setup := h.Query(conj(append(append([]T{}, ga...), Cm("assertz", Cm("ah", V("L"))), Cm("assertz", Cm("ah2", Cm("f", V("L"), A("k")))),
				Cm("assertz", Cm("ah3", A("x"), V("L"))), Cm("assertz", Cm("ah3", A("y"), ref.PList(V("Open"), V("L")))))...), 2)
			pc.Steps = append(pc.Steps, setup)
			for _, call := range calls {
				if ref.STO(lt, call) {
					continue
				}
				pc.Steps = append(pc.Steps, h.Query(call, 6))
			}
			runProgCase(w, "asserted-heads", pc, len(la))
		}
	}
}

// renameVarsExcept renames every variable of t with a prefix, except the one named keep.
func renameVarsExcept(t T, prefix, keep string) T {
	var rec func(t T) T
	rec = func(t T) T {
		switch x := t.(type) {
		case *ref.Var:
			if x.Name == keep {
				return V(keep)
			}
			return V(prefix + x.Name)
		case *ref.Cmp:
			args := make([]T, len(x.Args))
			for i, a := range x.Args {
				args[i] = rec(a)
			}
			return &ref.Cmp{F: x.F, Args: args}
		}
		return t
	}
	return rec(t)
}

// ---- binding tree: persistence and completeness of the environment ---------------------------

type c02EnvCase struct {
	Env   bool  `json:"env"`
	N     int   `json:"n"`
	Order []int `json:"order"` // order in which variables 0..n-1 are bound
	Chain bool  `json:"chain"` // bind variable i to variable i+1 (the last to an atom) instead of to atoms
}

func c02EnvRun(c *c02EnvCase) (exp, act string, ok bool) {
	vars := make([]engine.Variable, c.N)
	for i := range vars {
		vars[i] = engine.NewVariable()
	}
	val := func(i int) engine.Term {
		if c.Chain && i+1 < c.N {
			return vars[i+1]
		}
		return engine.NewAtom(fmt.Sprintf("v%d", i))
	}
	envs := []*engine.Env{engine.NewEnv()}
	model := []map[int]bool{{}}
	for _, i := range c.Order {
		e, okU := envs[len(envs)-1].Unify(vars[i], val(i))
		if !okU {
			return "unify succeeds", fmt.Sprintf("binding variable %d failed", i), false
		}
		m := map[int]bool{}
		for k := range model[len(model)-1] {
			m[k] = true
		}
		m[i] = true
		envs = append(envs, e)
		model = append(model, m)
		// every version (old and new) resolves every variable as the model says
		for ver, env := range envs {
			for j := 0; j < c.N; j++ {
				got := env.Resolve(vars[j])
				// expected: follow the model's bindings of this version
				k := j
				var want engine.Term = vars[k]
				for model[ver][k] {
					v := val(k)
					want = v
					if vv, isVar := v.(engine.Variable); isVar {
						k++
						_ = vv
						continue
					}
					break
				}
				if got != want {
					return fmt.Sprintf("version %d resolves variable %d to %v", ver, j, want), fmt.Sprintf("%v", got), false
				}
			}
		}
	}
	return "", "", true
}

func c02EnvWork(w *h.W) {
	maxN := w.Pick(7, 8)
	for n := 1; n <= maxN; n++ {
		perm := make([]int, n)
		for i := range perm {
			perm[i] = i
		}
		var rec func(k int)
		rec = func(k int) {
			if k == n {
				for _, chain := range []bool{false, true} {
					if !w.Mine() {
						continue
					}
					c := &c02EnvCase{Env: true, N: n, Order: append([]int{}, perm...), Chain: chain}
					w.Guard(c)
					exp, act, ok := c02EnvRun(c)
					w.Unguard()
					w.Eval(1)
					w.States(int(n))
					w.Transitions(n)
					w.Traces(1)
					w.Outcome(fmt.Sprintf("env-n%d", n))
					if n >= 3 {
						w.Nontrivial(fmt.Sprint(c.Order, chain))
					}
					if !ok {
						w.Violation("env: an environment version lost or changed a binding", c, exp, act, n)
					}
				}
				return
			}
			for i := k; i < n; i++ {
				perm[k], perm[i] = perm[i], perm[k]
				rec(k + 1)
				perm[k], perm[i] = perm[i], perm[k]
			}
		}
		rec(0)
	}
}

func c02Work(w *h.W) {
	c02EnvWork(w)
	u := c02Universe(w.Thorough())
	for _, s := range u {
		for _, t := range u {
			if !w.Mine() {
				continue
			}
			if w.Expired() {
				return
			}
			runProgCase(w, "pairs", c02PairCase(s, t), ref.Size(s)+ref.Size(t))
		}
	}
	deep := c02Deep()
	shallow := termsUpTo([]T{A("a"), V("X"), V("Y"), ref.Nil}, []Functor{{"f", 1}, {"g", 2}, {".", 2}}, 1)
	sort.SliceStable(deep, func(i, j int) bool { return ref.Size(deep[i]) < ref.Size(deep[j]) })
	for _, s := range deep {
		if ref.Size(s) <= 3 {
			continue // covered by the first family
		}
		if !w.Mine() {
			continue
		}
		if w.Expired() {
			return
		}
		// one deep term against all shallow terms, as goal pairs and as clause head
		pc := &h.ProgCase{}
		for _, t := range shallow {
			sub := c02PairCase(s, t)
			pc.Steps = append(pc.Steps, sub.Steps[:min(len(sub.Steps), 7)]...)
		}
		runProgCase(w, "pairs-deep", pc, ref.Size(s))
		runProgCase(w, "head", c02HeadCase(s, shallow), ref.Size(s))
	}
	for _, s := range shallow {
		if !w.Mine() {
			continue
		}
		runProgCase(w, "head", c02HeadCase(s, deep), ref.Size(s))
	}
	c02RecipeWork(w)
	c02AtomWork(w)
	c02OccursHistories(w)
	c02MultiArgHeads(w)
}

// ---- heads of several arguments against goals that repeat a variable across arguments: what one clause's head
// unification bound through an earlier argument must be gone when the next clause is tried, and the sharing between
// the goal's arguments must be there for every clause ----

func c02MultiArgHeads(w *h.W) {
	dom := []string{"1", "a", "A", "B", "f(A)", "f(1)", "[A|B]"}
	goals := []string{"p(X, X)", "p(X, Y)", "p(f(Y), Y)", "p(Y, f(Y))", "p(X, f(X))", "A0 = B0, p(A0, B0)", "p(A0, B0), A0 = B0", "p(X, X), X = 1", "p([X|Y], X)", "p(X, 1)", "p(a, X)"}
	// the call each goal amounts to, for the occurs-check filter
	eff := []string{"p(X, X)", "p(X, Y)", "p(f(Y), Y)", "p(Y, f(Y))", "p(X, f(X))", "p(X, X)", "p(X, X)", "p(X, X)", "p([X|Y], X)", "p(X, 1)", "p(a, X)"}
	nc := w.Pick(2, 3)
	heads := len(dom) * len(dom)
	for k := 1; k <= nc; k++ {
		seqs(k, heads, func(idx []int) bool {
			if !w.Mine() {
				return true
			}
			if w.Expired() {
				return false
			}
			var cls []T
			for _, h := range idx {
				cls = append(cls, rd("p("+dom[h/len(dom)]+", "+dom[h%len(dom)]+")"))
			}
			pc := &h.ProgCase{Steps: []h.ProgStep{h.Consult(cls...)}}
			for gi, g := range goals {
				if c02AnySTO(cls, eff[gi]) {
					continue // a unification subject to occurs check (X = f(X)): undefined, excluded
				}
				pc.Steps = append(pc.Steps, h.Query(rd(g), 6))
			}
			runProgCase(w, "multi-arg-heads", pc, k)
			return true
		})
	}
	// arity 3 over a smaller domain, two clauses
	d3 := []string{"1", "a", "A", "f(A)"}
	g3 := []string{"q(X, X, X)", "q(X, X, Y)", "q(X, Y, X)", "q(Y, X, X)", "q(X, Y, Z)", "q(f(X), X, Y)", "q(X, f(X), X)"}
	h3 := len(d3) * len(d3) * len(d3)
	seqs(2, h3, func(idx []int) bool {
		if !w.Mine() {
			return true
		}
		if w.Expired() {
			return false
		}
		var cls []T
		for _, h := range idx {
			cls = append(cls, rd("q("+d3[h/16]+", "+d3[(h/4)%4]+", "+d3[h%4]+")"))
		}
		pc := &h.ProgCase{Steps: []h.ProgStep{h.Consult(cls...)}}
		for _, g := range g3 {
			if c02AnySTO(cls, g) {
				continue
			}
			pc.Steps = append(pc.Steps, h.Query(rd(g), 6))
		}
		runProgCase(w, "multi-arg-heads", pc, 2)
		return true
	})
}

func c02AnySTO(cls []T, goal string) bool {
	for _, c := range cls {
		if ref.STO(renameVars(c, "H"), rd(goal)) {
			return true
		}
	}
	return false
}

// ---- occurs check across choice points: what a failed branch bound (or looked at) is not observable in the next ----

func c02OccursHistories(w *h.W) {
	builds := []string{
		"X0 = f(Z), Y = k(X0)", "X0 = f(Z), Y = X0", "X0 = [Z], Y = k(X0, X0)", "X0 = f(Z), X1 = g(X0), Y = k(X1)", "Y = k(f(Z))",
		"X0 = f(Z, Q), Y = k(X0), Q = b",
	}
	firsts := []string{ // what the first branch does before it fails
		"Z = a, unify_with_occurs_check(W, g(Y))", "Z = a, unify_with_occurs_check(Y, Y)", "Z = a, unify_with_occurs_check(k(V), Y), nonvar(V)",
		"Z = a, W = g(Y), unify_with_occurs_check(W, W2)", "unify_with_occurs_check(W, g(Y))", "Z = g(c), unify_with_occurs_check(Y, R), nonvar(R)",
	}
	seconds := []string{"unify_with_occurs_check(Z, h(Y))", "unify_with_occurs_check(Z, Y)", "unify_with_occurs_check(h(Y), Z)", "unify_with_occurs_check(Z, h(Z2)), Z2 = Y", "unify_with_occurs_check(f(Z, Y), f(h(Y), Y))"}
	choices := []string{"clauses", "between", "member", "disjunction"}
	for bi, b := range builds {
		for pad := 0; pad <= w.Pick(5, 9); pad++ {
			if !w.Mine() {
				continue
			}
			var pads, pvars []string
			for i := 0; i < pad; i++ {
				pads = append(pads, fmt.Sprintf("P%d = pad(%d)", i, i))
				pvars = append(pvars, fmt.Sprintf("P%d", i))
			}
			// the first goal mentions the variables in a chosen order, which fixes the order of their numbers and
			// thereby where their bindings sit in the environment's tree: the padding between X0 and Z, after both,
			// before both
			order := [][]string{append(append([]string{"X0"}, pvars...), "Z"), append(append([]string{"Z"}, pvars...), "X0"), append(append([]string{}, pvars...), "X0", "Z"), append([]string{"X0", "Z"}, pvars...)}[(bi+pad)%4]
			padding := "_ = t(" + strings.Join(order, ", ") + "), "
			if pad > 0 {
				padding += strings.Join(pads, ", ") + ", "
			}
			pc := &h.ProgCase{Budget: 4000}
			var cls []T
			for fi, f := range firsts {
				for si, s := range seconds {
					name := fmt.Sprintf("alt_%d_%d", fi, si)
					cls = append(cls, rd(name+"(Z, Y) :- "+f+", fail"), rd(name+"(Z, Y) :- "+s))
				}
			}
			pc.Steps = append(pc.Steps, h.Consult(cls...))
			for fi, f := range firsts {
				for si, s := range seconds {
					for _, ch := range choices {
						var q string
						switch ch {
						case "clauses":
							q = fmt.Sprintf("%s%s, alt_%d_%d(Z, Y)", padding, b, fi, si)
						case "between":
							q = fmt.Sprintf("%s%s, between(1, 2, I), (I =:= 1 -> %s, fail ; %s)", padding, b, f, s)
						case "member":
							q = fmt.Sprintf("%s%s, member(I, [1, 2]), (I =:= 1 -> %s, fail ; %s)", padding, b, f, s)
						default:
							q = fmt.Sprintf("%s%s, (%s, fail ; %s)", padding, b, f, s)
						}
						st := h.Query(rd(q), 3)
						st.Vars = []string{"Z"}
						pc.Steps = append(pc.Steps, st)
					}
				}
			}
			runProgCase(w, "occurs-histories", pc, bi+pad)
		}
	}
}

// ---- atom routes: one atom reached through every way the system offers to make an atom -----------

type c02AtomCase struct {
	Atoms  bool   `json:"atom_routes"`
	Codes  []int  `json:"codes"`
	RouteA string `json:"route_a"`
	RouteB string `json:"route_b"`
}

// each route binds its variable (%V) to the atom whose character codes are %C (a code list), %c0 = first code
var c02AtomRoutes = map[string]string{
	"atom_codes":        "atom_codes(%V, %C)",
	"chars-via-codes":   "atom_codes(%VT, %C), atom_chars(%VT, %VL), atom_chars(%V, %VL)",
	"char_code-each":    "c02chars(%C, %VL), atom_chars(%V, %VL)",
	"atom_concat":       "atom_codes(%VT, %C), atom_concat('', %VT, %V)",
	"atom_concat-split": "atom_codes(%VT, [0'x|%C]), atom_concat(x, %V, %VT)",
	"sub_atom":          "atom_codes(%VT, [0'x|%C]), sub_atom(%VT, 1, _, 0, %V)",
	"element-of-chars":  "atom_codes(%VT, %C), atom_chars(%VT, [%V])", // one-character atoms only
	"char_code":         "%C = [%VK], char_code(%V, %VK)",             // one-character atoms only
	"functor-name":      "atom_codes(%VT, %C), %VF =.. [%VT, 1], functor(%VF, %V, _)",
	"read_term":         "atom_codes(%VT, %C), c02read(%VT, %V)",
}

const c02AtomHelp = `
c02chars([], []).
c02chars([K|Ks], [C|Cs]) :- char_code(C, K), c02chars(Ks, Cs).
`

func c02AtomGoal(route, v string, codes []int) string {
	var cs []string
	for _, c := range codes {
		cs = append(cs, fmt.Sprint(c))
	}
	g := c02AtomRoutes[route]
	g = strings.ReplaceAll(g, "%VT", v+"T")
	g = strings.ReplaceAll(g, "%VL", v+"L")
	g = strings.ReplaceAll(g, "%VK", v+"K")
	g = strings.ReplaceAll(g, "%VF", v+"F")
	g = strings.ReplaceAll(g, "%V", v)
	g = strings.ReplaceAll(g, "%C", "["+strings.Join(cs, ", ")+"]")
	return g
}

func c02AtomRun(c *c02AtomCase) (exp, act string, ok bool) {
	im := h.NewImpl()
	if o := im.Exec(c02AtomHelp); o.Status != "ok" {
		return "helper loads", o.String(), false
	}
	// c02read/2 writes the atom quoted and reads it back: here the atom is given to the reader as a placeholder-free
	// text through atom_to_term-like means is not available, so the reader route goes through writeq + read_term
	// on a fresh pair of streams, which C06 checks separately; it is left out when the text is not readable
	if strings.Contains(c.RouteA+c.RouteB, "read_term") {
		return "", "skipped", true
	}
	q := c02AtomGoal(c.RouteA, "A", c.Codes) + ", " + c02AtomGoal(c.RouteB, "B", c.Codes) +
		", (A == B -> R1 = same ; R1 = different), (A = B -> R2 = unify ; R2 = no), compare(O, A, B), atom_length(A, N1), atom_length(B, N2), (atom(A), atom(B) -> R3 = atoms ; R3 = no)"
	o, ans := im.QueryTerms(q+".", []string{"R1", "R2", "O", "N1", "N2", "R3"}, 2)
	exp = fmt.Sprintf("one answer: 'same' ; 'unify' ; '=' ; %d ; %d ; 'atoms'", len(c.Codes), len(c.Codes))
	if o.Status == "exhausted" && len(ans) == 0 {
		// a route that does not apply to this atom (e.g. the one-character routes) fails: not a finding
		return exp, "a route does not apply", true
	}
	if o.Status != "exhausted" || len(ans) != 1 {
		return exp, o.String(), false
	}
	act = "one answer: " + ref.CanonAnswer(ans[0])
	return exp, act, act == exp
}

func c02AtomWork(w *h.W) {
	var names [][]int
	for _, ch := range c06CategoryChars {
		r := []rune(ch)
		names = append(names, []int{int(r[0])})
		names = append(names, []int{int(r[0]), 'a'}, []int{'a', int(r[0])})
	}
	for _, k := range []int{0, 1, 9, 10, 32, 39, 92, 127, 128, 255, 256, 0xd7ff, 0xe000, 0xfffd, 0xfffe, 0xffff, 0x10000, 0x10ffff} {
		names = append(names, []int{k}, []int{k, k})
	}
	names = append(names, []int{})
	var routes []string
	for r := range c02AtomRoutes {
		if r != "read_term" {
			routes = append(routes, r)
		}
	}
	sort.Strings(routes)
	for _, codes := range names {
		for _, ra := range routes {
			for _, rb := range routes {
				if !w.Mine() {
					continue
				}
				if w.Expired() {
					return
				}
				c := &c02AtomCase{Atoms: true, Codes: codes, RouteA: ra, RouteB: rb}
				w.Guard(c)
				exp, act, ok := c02AtomRun(c)
				w.Unguard()
				w.Eval(1)
				w.States(1)
				w.Transitions(1)
				w.Traces(1)
				if act != "a route does not apply" {
					w.Nontrivial(fmt.Sprint(codes, ra, rb))
				}
				w.Outcome("atom-routes:" + fmt.Sprint(ok))
				if !ok {
					w.Violation("atom-routes: the same characters through "+ra+" and "+rb+" are not one atom", c, exp, act, len(codes))
				}
			}
		}
	}
}

func c02Replay(b []byte) (string, string, bool) {
	var ec c02EnvCase
	if json.Unmarshal(b, &ec) == nil && ec.Env {
		return c02EnvRun(&ec)
	}
	var ac c02AtomCase
	if json.Unmarshal(b, &ac) == nil && ac.Atoms {
		return c02AtomRun(&ac)
	}
	return h.ProgReplay(b)
}

func init() {
	h.Register(&h.Check{
		ID: "C02",
		Rule: "(a) all ordered pairs of terms of depth <= 1 over {a,(b),1,(1.0),X,Y,(Z),[],f/1,g/2,'.'/2} and all (depth-2 term, depth<=1 term) pairs: =/2 both ways, == afterwards, bindings after failure (else-branch, \\+, \\=, next clause), unify_with_occurs_check/2 both ways, subsumes_term/2, copy_term/2, clause-head unification; pairs subject to occurs check (conservative detector) are skipped for =/2 only; (b) all pairs of abstract lists of length <= L over {a,b,97,X} x all pairs of 16 construction recipes (bracket, nested [H|T], partial list bound later/earlier, './2 compound, atom_chars, atom_codes, double-quoted literal, append/3 closed and open, =../2, findall/3, length/2 then bind); (d) atom routes: every atom of one or two characters over one representative of each Unicode general category and the boundary code points (0, 127/128, 255/256, surrogate neighbours, U+FFFD, U+FFFE/FFFF, U+10000, U+10FFFF), reached through every pair of 9 routes (atom_codes, atom_chars, char_code per character, atom_concat joined and split, sub_atom, element of atom_chars, char_code, functor name): the two results are identical (==), unify, compare '=' and have the same length; (e) occurs check across choice points: 6 constructions of a term that holds an unbound variable behind 0..5 (9) further bindings x 6 first branches (bind the variable, walk the term with an occurs-check unification, fail) x 5 occurs-check unifications in the second branch x 4 kinds of choice point (clauses, between/3, member/2, disjunction); (f) heads of several arguments: every predicate of 1..2 (3) clauses p(S, T) over 7 argument shapes (atoms, variables, f(A), f(1), [A|B]) x 11 goals that repeat a variable across arguments (p(X, X), p(f(Y), Y), aliased before and after the call ...) and every pair of clauses q/3 over 4 shapes x 7 goals; (c) binding tree: every insertion order of n <= N variables (atoms and variable chains), every earlier environment version re-checked after every insertion. Non-trivial = decided; distinct = case text.",
		Explanation: "state = a pair of terms (or an environment version); transition = one unification attempt on the real interpreter (or one Env.Unify on the real persistent tree) compared with the reference Robinson unifier / a plain Go map; the answer substitution is compared up to variable renaming, which makes it a most general unifier iff the reference's is",
		Assumptions: []string{"reference: ref/unify (Robinson with trail, occurs check optional) and the conservative STO detector", "engine.Variable, engine.NewEnv, Env.Unify and Env.Resolve are exported API and are used directly for the binding-tree sub-check"},
		Work:        c02Work,
		Replay:      c02Replay,
		QuickDeadline: 150 * time.Second, ThoroughDeadline: 25 * time.Minute,
	})
}
