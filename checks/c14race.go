package checks

import (
	"bytes"
	"fmt"
	"strings"
	"sync"
	"time"

	"github.com/ichiban/prolog"

	"verif/h"
)

// Free-running pass for the race detector (the binary is built with -race): the same kinds of
// bodies as the scheduler-controlled scenarios of C12/C14 plus full-size ones, on real goroutines.
// A cooperative scheduler's hand-offs are happens-before edges and would blind the detector, so
// this pass is separate; any pair of conflicting accesses that is not ordered by happens-before
// is reported regardless of timing.

const c14RaceProgram = `
:- dynamic(counter/1).
counter(0).
inc :- retract(counter(N)), M is N + 1, assertz(counter(M)).
len([], 0).
len([_|T], N) :- len(T, M), N is M + 1.
greet(X) :- atom_concat(hello_, X, Y), write(Y), nl.
`

func c14RaceBody(id, round int, out *bytes.Buffer) error {
	p := prolog.New(strings.NewReader("foo. bar."), out)
	if err := p.Exec(c14RaceProgram); err != nil {
		return err
	}
	name := fmt.Sprintf("rc_%d", round) // the same new atom in every interpreter of a round
	qs := []string{
		"inc, inc, counter(X).",
		"atom_concat(" + name + ", '_suffix', X), atom_length(X, L), atom_chars(X, Cs).",
		"atom_chars(A, \"" + name + "_zz\"), atom_length(A, L).",
		"X = f(Y, Z, W), copy_term(X, C), length(L, 5).",
		"greet(" + name + ").",
		"catch(undefined_" + name + ", error(E, _), true).",
		"op(700, xfx, ===>).",
		"X = (a ===> b), write(X).",
		"set_prolog_flag(double_quotes, atom), X = \"abc\".",
		"read(T).",
		"findall(X-Y, (member(X, [1,2,3]), Y is X * X), L), sort(L, S).",
		"assertz(" + name + "(1)), " + name + "(V).",
		"X = " + name + "(a, \"s\"), writeq(X), nl.",
	}
	for _, q := range qs {
		sols, err := p.Query(q)
		if err != nil {
			return fmt.Errorf("%s: %v", q, err)
		}
		for sols.Next() {
			var m map[string]interface{}
			m = map[string]interface{}{}
			_ = sols.Scan(m)
		}
		if err := sols.Err(); err != nil {
			return fmt.Errorf("%s: %v", q, err)
		}
		sols.Close()
	}
	// an iterator that is closed early and one that is abandoned after an answer
	sols, _ := p.Query("member(X, [1,2,3]).")
	sols.Next()
	sols.Close()
	return nil
}

func c14RaceWork(w *h.W) {
	rounds := w.Pick(40, 400)
	n := 8
	for r := 0; r < rounds; r++ {
		if w.Expired() {
			return
		}
		var wg sync.WaitGroup
		errs := make([]error, n)
		outs := make([]*bytes.Buffer, n)
		for i := 0; i < n; i++ {
			wg.Add(1)
			outs[i] = &bytes.Buffer{}
			go func(i int) {
				defer wg.Done()
				errs[i] = c14RaceBody(i, r*16+w.Shard, outs[i])
			}(i)
		}
		wg.Wait()
		w.Eval(n)
		w.States(1)
		w.Transitions(n * 13)
		w.Traces(1)
		w.Nontrivial(fmt.Sprint("round", r, w.Shard))
		for i := range errs {
			if errs[i] != nil {
				w.Outcome("error")
				w.Violation("race-pass: a query failed while interpreters ran concurrently", map[string]interface{}{"round": r, "interpreter": i}, "every interpreter answers as when run alone", errs[i].Error(), 1)
			} else if outs[i].String() != outs[0].String() {
				w.Outcome("output-differs")
				w.Violation("race-pass: output differs between identical interpreters run concurrently", map[string]interface{}{"round": r, "interpreter": i}, outs[0].String(), outs[i].String(), 1)
			} else {
				w.Outcome("ok")
			}
		}
		w.Outcome(fmt.Sprintf("round-mod-%d", r%2))
	}
}

func raceStderr(stderr string) *h.Violation {
	i := strings.Index(stderr, "WARNING: DATA RACE")
	if i < 0 {
		return nil
	}
	rep := stderr[i:]
	if j := strings.Index(rep, "=================="); j > 0 {
		rep = rep[:j]
	}
	// signature: the two top frames
	var frames []string
	for _, l := range strings.Split(rep, "\n") {
		l = strings.TrimSpace(l)
		if strings.HasPrefix(l, "github.com/ichiban/prolog") && len(frames) < 2 {
			if k := strings.Index(l, "("); k > 0 {
				l = l[:k]
			}
			frames = append(frames, l)
		}
	}
	if len(rep) > 3000 {
		rep = rep[:3000]
	}
	return &h.Violation{Sig: "data race: " + strings.Join(frames, " / "), Case: []byte(`{"race_pass":true}`), Expected: "no data race", Actual: rep, Size: 1}
}

func init() {
	h.Register(&h.Check{
		ID:     "C14race",
		Hidden: true,
		Rule:   "free-running -race pass: rounds of 8 interpreters created, loaded, queried (atom creation with colliding names, variable creation, database updates, operators, flags, I/O, early Close) concurrently on real goroutines",
		Explanation: "dynamic analysis (Go race detector) on free-running executions; complements the controlled exploration",
		Work:   c14RaceWork,
		Procs:  "8",
		Workers: func(string) int { return 2 },
		StderrViolation: raceStderr,
		MinOutcomes:     2,
		QuickDeadline: 100 * time.Second, ThoroughDeadline: 10 * time.Minute,
	})
}
