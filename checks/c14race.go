package checks

import (
	"bytes"
	"context"
	"fmt"
	"io"
	"os"
	"regexp"
	"sort"
	"strings"
	"sync"
	"time"

	"github.com/ichiban/prolog"
	"github.com/ichiban/prolog/engine"

	"verif/h"
	"verif/ref"
)

// Free-running pass for the race detector (the binary is built with -race): the same kinds of
// bodies as the scheduler-controlled scenarios of C12/C14 plus full-size ones, on real goroutines.
// A cooperative scheduler's hand-offs are happens-before edges and would blind the detector, so
// this pass is separate; any pair of conflicting accesses that is not ordered by happens-before
// is reported regardless of timing.

const c14RaceProgram = `
:- dynamic(counter/1).
counter(0).
inc :- retract(counter(N)), M is N + 1, assertz(counter(M)).
len([], 0).
len([_|T], N) :- len(T, M), N is M + 1.
greet(X) :- atom_concat(hello_, X, Y), write(Y), nl.
`

func c14RaceBody(id, round int, out *bytes.Buffer) error {
	p := prolog.New(strings.NewReader("foo. bar."), out)
	if err := p.Exec(c14RaceProgram); err != nil {
		return err
	}
	name := fmt.Sprintf("rc_%d", round) // the same new atom in every interpreter of a round
	qs := []string{
		"inc, inc, counter(X).",
		"atom_concat(" + name + ", '_suffix', X), atom_length(X, L), atom_chars(X, Cs).",
		"atom_chars(A, \"" + name + "_zz\"), atom_length(A, L).",
		"X = f(Y, Z, W), copy_term(X, C), length(L, 5).",
		"greet(" + name + ").",
		"catch(undefined_" + name + ", error(E, _), true).",
		"op(700, xfx, ===>).",
		"X = (a ===> b), write(X).",
		"set_prolog_flag(double_quotes, atom), X = \"abc\".",
		"read(T).",
		"findall(X-Y, (member(X, [1,2,3]), Y is X * X), L), sort(L, S).",
		"assertz(" + name + "(1)), " + name + "(V).",
		"X = " + name + "(a, \"s\"), writeq(X), nl.",
	}
	for _, q := range qs {
		sols, err := p.Query(q)
		if err != nil {
			return fmt.Errorf("%s: %v", q, err)
		}
		for sols.Next() {
			var m map[string]interface{}
			m = map[string]interface{}{}
			_ = sols.Scan(m)
		}
		if err := sols.Err(); err != nil {
			return fmt.Errorf("%s: %v", q, err)
		}
		sols.Close()
	}
	// an iterator that is closed early and one that is abandoned after an answer
	sols, _ := p.Query("member(X, [1,2,3]).")
	sols.Next()
	sols.Close()
	return nil
}

// ---- goal matrix shared by the retained-results family of C14 and the race pass ---------------

var c14Shapes = []string{"V", "a", "1", "9223372036854775807", "f(W)", "[a, b]", "\"ab\"", "user_output"}

// c14GoalMatrix lists, per registered procedure (halt excepted), all tuples of argument shapes.
func c14GoalMatrix() (goals []string, procOf []int) {
	for pi, pr := range c05Procedures() {
		if pr.Name == "halt" {
			continue
		}
		tuple := c14Shapes
		switch {
		case pr.Arity >= 6:
			tuple = c14Shapes[:2]
		case pr.Arity >= 4:
			tuple = c14Shapes[:4]
		}
		seqs(pr.Arity, len(tuple), func(idx []int) bool {
			goal := ref.QuoteAtom(pr.Name)
			if pr.Arity > 0 {
				args := make([]string, len(idx))
				for k, i := range idx {
					args[k] = tuple[i]
					if args[k] == "V" {
						args[k] = fmt.Sprintf("V%d", k)
					}
				}
				goal += "(" + strings.Join(args, ", ") + ")"
			}
			goals = append(goals, goal+" .")
			procOf = append(procOf, pi)
			return true
		})
	}
	return
}

// c14Kept is what the caller of one goal keeps: the error value and the raw first answer.
type c14Kept struct {
	err  error
	caps map[string]h.Cap
}

func c14RunKeep(p *prolog.Interpreter, goal string) (k c14Kept) {
	defer func() {
		if r := recover(); r != nil {
			k.err = fmt.Errorf("go panic: %v", r)
		}
	}()
	ctx, cancel := context.WithTimeout(context.Background(), 5*time.Second)
	defer cancel()
	sols, err := p.QueryContext(ctx, goal)
	if err != nil {
		return c14Kept{err: err}
	}
	if sols.Next() {
		k.caps = map[string]h.Cap{}
		_ = sols.Scan(k.caps)
		sols.Next()
	}
	k.err = sols.Err()
	sols.Close()
	return k
}

func (k c14Kept) render() string {
	var sb strings.Builder
	if k.err != nil {
		sb.WriteString("error: " + k.err.Error() + " / " + h.ErrTerm(k.err))
	}
	if k.caps != nil {
		names := make([]string, 0, len(k.caps))
		for n := range k.caps {
			names = append(names, n)
		}
		sort.Strings(names)
		cv := h.NewConv()
		nm := ref.NewNamer()
		for _, n := range names {
			c := k.caps[n]
			sb.WriteString(" " + n + "=" + ref.Canon(cv.Term(c.T, c.Env), nm))
		}
	}
	return sb.String()
}

// touch reads everything the caller was handed using the implementation's own accessors only (the
// reference-term converter has a process-wide counter of its own and must stay out of the race pass).
func (k c14Kept) touch() int {
	n := 0
	if k.err != nil {
		n += len(k.err.Error())
	}
	var walk func(t engine.Term, env *engine.Env, depth int)
	walk = func(t engine.Term, env *engine.Env, depth int) {
		n++
		if depth > 1000 {
			return
		}
		if c, ok := env.Resolve(t).(engine.Compound); ok {
			n += len(c.Functor().String())
			for i := 0; i < c.Arity(); i++ {
				walk(c.Arg(i), env, depth+1)
			}
		}
	}
	for _, c := range k.caps {
		walk(c.T, c.Env, 0)
	}
	return n
}

var c14AddrRe = regexp.MustCompile(`_[0-9]+|0x[0-9a-f]+|_G[0-9]+`)

// c14Retained: interpreter A runs every goal of the matrix and its caller keeps every error value and
// first answer; then interpreter B runs the same goals; nothing A's caller holds may have changed, and
// B's errors are those of A (each interpreter answers as it does alone).
func c14Retained(w *h.W) {
	goals, procOf := c14GoalMatrix()
	nProc := 0
	for _, pi := range procOf {
		if pi+1 > nProc {
			nProc = pi + 1
		}
	}
	type held struct {
		kept c14Kept
		r1   string
		goal string
	}
	var all []held
	defer func() {
		// finally a third interpreter runs the WHOLE matrix (all procedures, not only this worker's
		// share) and everything this worker's callers still hold is rendered once more
		if len(all) == 0 || w.Expired() {
			return
		}
		w.GuardFor(map[string]interface{}{"kind": "retained", "phase": "whole matrix"}, 10*time.Minute)
		var c *prolog.Interpreter
		for j, g := range goals {
			if j%400 == 0 {
				c = prolog.New(strings.NewReader("foo. bar(X). \"text\". 12"), &bytes.Buffer{})
			}
			c14RunKeep(c, g)
		}
		w.Unguard()
		w.Eval(len(goals))
		w.Transitions(len(goals))
		for _, hd := range all {
			if r3 := hd.kept.render(); r3 != hd.r1 {
				w.Outcome("retained:changed")
				w.Violation("retained: a result held by the caller of one interpreter changed when another interpreter ran the goal matrix",
					map[string]interface{}{"kind": "retained-all", "goal": hd.goal}, hd.r1, r3, 1)
				return
			}
		}
		w.Outcome("retained:whole matrix")
	}()
	// a worker takes whole procedures; the two interpreters live for one procedure
	for pi := 0; pi < nProc; pi++ {
		if !w.Mine() {
			continue
		}
		if w.Expired() {
			return
		}
		var gs []string
		for i, g := range goals {
			if procOf[i] == pi {
				gs = append(gs, g)
			}
		}
		if len(gs) == 0 {
			continue
		}
		w.GuardFor(map[string]interface{}{"kind": "retained", "first_goal": gs[0]}, 10*time.Minute)
		newI := func() *prolog.Interpreter { return prolog.New(strings.NewReader("foo. bar(X). \"text\". 12"), &bytes.Buffer{}) }
		a, b := newI(), newI()
		keptA := make([]c14Kept, len(gs))
		r1 := make([]string, len(gs))
		for i, g := range gs {
			keptA[i] = c14RunKeep(a, g)
		}
		for i := range gs {
			r1[i] = keptA[i].render()
		}
		keptB := make([]c14Kept, len(gs))
		for i, g := range gs {
			keptB[i] = c14RunKeep(b, g)
		}
		w.Unguard()
		for i, g := range gs {
			if keptA[i].err != nil || keptA[i].caps != nil {
				all = append(all, held{keptA[i], r1[i], g})
			}
		}
		for i, g := range gs {
			w.Eval(2)
			w.Transitions(2)
			r2 := keptA[i].render()
			c := map[string]interface{}{"kind": "retained", "goal": g, "procedure_goals": gs[:i+1]}
			if r2 != r1[i] {
				w.Outcome("retained:changed")
				w.Violation("retained: a result held by the caller of one interpreter changed when another interpreter ran the same goals", c, r1[i], r2, i)
				break
			}
			ea, eb := "", ""
			if keptA[i].err != nil {
				ea = c14AddrRe.ReplaceAllString(keptA[i].err.Error(), "_")
			}
			if keptB[i].err != nil {
				eb = c14AddrRe.ReplaceAllString(keptB[i].err.Error(), "_")
			}
			if ea != eb {
				w.Outcome("retained:error differs")
				w.Violation("retained: the second interpreter reports another error than the first for the same goals", c, ea, eb, i)
				break
			}
			if ea != "" {
				w.Outcome("retained:error kept")
			} else if keptA[i].caps != nil {
				w.Outcome("retained:answer kept")
			} else {
				w.Outcome("retained:failure")
			}
		}
		w.States(1)
		w.Traces(1)
		w.Nontrivial("retained:" + gs[0])
	}
}

// c14RetainedReplay re-runs one procedure's goals up to the failing one.
func c14RetainedReplay(gs []string) (string, string, bool) {
	newI := func() *prolog.Interpreter { return prolog.New(strings.NewReader("foo. bar(X). \"text\". 12"), &bytes.Buffer{}) }
	a, b := newI(), newI()
	keptA := make([]c14Kept, len(gs))
	r1 := make([]string, len(gs))
	for i, g := range gs {
		keptA[i] = c14RunKeep(a, g)
	}
	for i := range gs {
		r1[i] = keptA[i].render()
	}
	keptB := make([]c14Kept, len(gs))
	for i, g := range gs {
		keptB[i] = c14RunKeep(b, g)
	}
	for i := range gs {
		if r2 := keptA[i].render(); r2 != r1[i] {
			return r1[i], r2, false
		}
		ea, eb := "", ""
		if keptA[i].err != nil {
			ea = c14AddrRe.ReplaceAllString(keptA[i].err.Error(), "_")
		}
		if keptB[i].err != nil {
			eb = c14AddrRe.ReplaceAllString(keptB[i].err.Error(), "_")
		}
		if ea != eb {
			return ea, eb, false
		}
	}
	return "results kept by A's caller unchanged; same errors in B", "as expected", true
}

// c14RetainedAllReplay: A runs one goal, another interpreter runs the whole matrix.
func c14RetainedAllReplay(goal string) (string, string, bool) {
	a := prolog.New(strings.NewReader("foo. bar(X). \"text\". 12"), &bytes.Buffer{})
	k := c14RunKeep(a, goal)
	r1 := k.render()
	goals, _ := c14GoalMatrix()
	var c *prolog.Interpreter
	for j, g := range goals {
		if j%400 == 0 {
			c = prolog.New(strings.NewReader("foo. bar(X). \"text\". 12"), &bytes.Buffer{})
		}
		c14RunKeep(c, g)
	}
	if r3 := k.render(); r3 != r1 {
		return r1, r3, false
	}
	return r1, "unchanged", true
}

// c14RaceMatrix: 8 interpreters run the goals of the matrix at the same time on real goroutines.
func c14RaceMatrix(w *h.W) {
	goals, procOf := c14GoalMatrix()
	var mine []string
	for i, g := range goals {
		if procOf[i]%2 == w.Shard%2 {
			mine = append(mine, g)
		}
	}
	n := 8
	var wg sync.WaitGroup
	for i := 0; i < n; i++ {
		wg.Add(1)
		go func(i int) {
			defer wg.Done()
			p := prolog.New(strings.NewReader("foo. bar(X). \"text\". 12"), &bytes.Buffer{})
			var kept []c14Kept
			for j, g := range mine {
				if j%400 == 0 {
					p = prolog.New(strings.NewReader("foo. bar(X). \"text\". 12"), &bytes.Buffer{})
				}
				kept = append(kept, c14RunKeep(p, g))
				if len(kept) > 50 {
					// the caller reads what it was handed while the other interpreters keep running
					_ = kept[0].touch()
					kept = kept[1:]
				}
			}
		}(i)
	}
	wg.Wait()
	w.Eval(n * len(mine))
	w.Transitions(n * len(mine))
	w.States(1)
	w.Traces(1)
	w.Nontrivial(fmt.Sprint("matrix", w.Shard))
	w.Outcome("matrix-round")
}

// ---- fresh atoms across interpreters ---------------------------------------------------------------
// The atom table is process-wide. A name that no interpreter has seen before is interned through one of
// the routes by which names come into being (parser token, quoted write - which lexes the name to decide
// on quotes -, atom_codes, atom_chars, atom_concat, sub_atom, read_term, op/3, =.., number of a functor);
// another interpreter then mentions the same name and keeps the atom; the first interpreter goes on
// creating other names of the same length through every route; finally the second interpreter's atom
// must still be spelled as it was and be the atom its name denotes.

type c14FreshCase struct {
	Fresh  bool   `json:"fresh_atoms"`
	Route  string `json:"route"`
	Name   string `json:"name"`
	Churn  string `json:"churn_name"`
	Second string `json:"second_route"`
}

// %N = the name, %C = its code list; every route makes interpreter A intern %N (or a name starting with it)
var c14FreshRoutes = map[string]string{
	"parser":             "X = '%N'",
	"quoted-write":       "writeq('%N burrow')",
	"quoted-write-built": "atom_codes(A, %C), atom_concat(A, ' burrow', B), writeq(B)",
	"write_canonical":    "atom_concat(x, ' %N', B), write_canonical(f(B))",
	"print-functor":      "atom_codes(A, %C), atom_concat(A, ' b', B), T =.. [B, 1], write_term(T, [quoted(true)])",
	"atom_codes":         "atom_codes(A, %C)",
	"atom_chars":         "atom_codes(A0, %C), atom_chars(A0, Cs), atom_chars(A, Cs)",
	"atom_concat":        "atom_codes(A0, %C), atom_concat(A0, '', A), atom_concat(A1, A2, A0), A2 \\== ''",
	"sub_atom":           "atom_codes(A0, [0'x, 0'x|%C]), sub_atom(A0, 2, _, 0, A)",
	"read_term":          "read_term(T, [])",
	"op":                 "atom_codes(A, %C), op(700, xfx, A)",
	"univ":               "atom_codes(A, %C), T =.. [A, 1], assertz(T)",
	"number_vars-name":   "atom_codes(A, %C), T = f(A, 'it''s %N'), writeq(T)",
}

func c14Codes(s string) string {
	var cs []string
	for _, r := range s {
		cs = append(cs, fmt.Sprint(int(r)))
	}
	return "[" + strings.Join(cs, ", ") + "]"
}

func c14FreshGoal(route, name string) string {
	g := c14FreshRoutes[route]
	g = strings.ReplaceAll(g, "%N", name)
	g = strings.ReplaceAll(g, "%C", c14Codes(name))
	return g
}

func c14FreshRun(c *c14FreshCase) (exp, act string, ok bool) {
	newI := func(name string) *prolog.Interpreter {
		return prolog.New(strings.NewReader("'"+name+" x'. "+name+". f("+name+")."), &bytes.Buffer{})
	}
	run := func(p *prolog.Interpreter, q string) string {
		k := c14RunKeep(p, q+" .")
		if k.err != nil {
			return "error: " + k.err.Error()
		}
		if k.caps == nil {
			return "fails"
		}
		return "ok"
	}
	a, b := newI(c.Name), newI("unrelated")
	undecided := func(r string) bool { return strings.Contains(r, "deadline exceeded") } // the 5 s resource guard, not an observation
	// 1. A comes across the name for the first time
	if r := run(a, c14FreshGoal(c.Route, c.Name)); r != "ok" {
		if undecided(r) {
			return "", "undecided: resource guard", true
		}
		return "A's goal succeeds", "A: " + c14FreshGoal(c.Route, c.Name) + " " + r, false
	}
	// 2. B mentions it and keeps the atom
	second := "X = '" + c.Name + "'"
	if c.Second == "atom_codes" {
		second = "atom_codes(X, " + c14Codes(c.Name) + ")"
	}
	if r := run(b, ":- dynamic(kept/1)"); false {
		_ = r
	}
	if r := run(b, second+", assertz(kept(X))"); r != "ok" {
		if undecided(r) {
			return "", "undecided: resource guard", true
		}
		return "B's goal succeeds", "B: " + r, false
	}
	// 3. A goes on: other names of the same length through every route
	ac := newI(c.Churn)
	for _, p := range []*prolog.Interpreter{a, ac} {
		for route := range c14FreshRoutes {
			run(p, c14FreshGoal(route, c.Churn))
		}
		run(p, "writeq('"+c.Churn+" burrow'), writeq(f('"+c.Churn+" z')), writeq('it''s')")
	}
	// 4. B looks at what it kept
	k := c14RunKeep(b, "kept(X), atom_codes(X, Cs), atom_length(X, L), (X == '"+c.Name+"' -> S = same ; S = different), atom_codes(Y, "+c14Codes(c.Name)+"), (X == Y -> S2 = same ; S2 = different) .")
	exp = "B's atom is still spelled " + c.Name + " and is the atom that name denotes"
	if k.err != nil && undecided(k.err.Error()) {
		return exp, "undecided: resource guard", true
	}
	if k.err != nil || k.caps == nil {
		return exp, fmt.Sprintf("B's observation does not succeed: %v", k.err), false
	}
	cv := h.NewConv()
	get := func(n string) string { return ref.Canon(cv.Term(k.caps[n].T, k.caps[n].Env), ref.NewNamer()) }
	want := ref.Canon(ref.Atom(c.Name), ref.NewNamer())
	wantCodes := []ref.Term{}
	for _, r := range c.Name {
		wantCodes = append(wantCodes, ref.Int(int64(r)))
	}
	if get("X") != want || get("Cs") != ref.Canon(ref.List(wantCodes...), ref.NewNamer()) || get("S") != "'same'" || get("S2") != "'same'" || get("L") != fmt.Sprint(len([]rune(c.Name))) {
		return exp, fmt.Sprintf("X = %s, codes %s, length %s, X == '%s': %s, X == atom_codes route: %s", get("X"), get("Cs"), get("L"), c.Name, get("S"), get("S2")), false
	}
	return exp, "as expected", true
}

var c14FreshSeq int

func c14FreshAtoms(w *h.W) {
	var routes []string
	for r := range c14FreshRoutes {
		routes = append(routes, r)
	}
	sort.Strings(routes)
	lengths := []int{0, 1, 7, 24} // padding beyond the unique stem
	for round := 0; round < w.Pick(3, 10); round++ {
		for _, route := range routes {
			for _, ln := range lengths {
				for _, second := range []string{"parser", "atom_codes"} {
					if !w.Mine() {
						continue
					}
					if w.Expired() {
						return
					}
					c14FreshSeq++
					// names that no execution of this process (or of its siblings) has used before
					stem := fmt.Sprintf("q%dw%dn%d", w.Shard, os.Getpid()%1000, c14FreshSeq)
					pad := func(prefix string) string { return prefix + stem + strings.Repeat("z", ln) }
					c := &c14FreshCase{Fresh: true, Route: route, Name: pad("k"), Churn: pad("m"), Second: second}
					if c.Name == c.Churn {
						continue
					}
					w.Guard(c)
					exp, act, ok := c14FreshRun(c)
					w.Unguard()
					w.Eval(1)
					w.States(1)
					w.Transitions(4)
					w.Traces(1)
					w.Nontrivial(fmt.Sprint("fresh:", route, ln, second, round))
					w.Outcome("fresh-atoms")
					if !ok {
						w.ViolationNoConfirm("fresh atoms: a name first interned through "+route+" changes under another interpreter's atom", c, exp, act)
					}
				}
			}
		}
	}
}

// c12RaceHistories: every call history over {Next, Scan, Err, Close} of length <= 4 on the query kinds of
// C12, with a background context, an already cancelled one, and one cancelled after the first call - on
// real goroutines under the race detector (the consumer and the search goroutine of ONE iterator).
func c12RaceHistories(w *h.W) {
	queries := []string{"fail.", "X = 1.", "(X = 1 ; X = 2).", "(put_char(a), X = 1 ; put_char(b), X = 2 ; put_char(c), X = 3).", "throw(e).", "(X = 1 ; throw(e)).", "repeat, put_char(r), X = 7.", "member(X, [1, 2, 3]), assertz(seen(X))."}
	ops := "NSEC"
	maxLen := w.Pick(4, 5)
	var hists []string
	var gen func(s string)
	gen = func(s string) {
		if len(s) > 0 {
			hists = append(hists, s)
		}
		if len(s) == maxLen {
			return
		}
		for _, o := range ops {
			gen(s + string(o))
		}
	}
	gen("")
	n := 0
	for qi, q := range queries {
		if qi%2 != w.Shard%2 {
			continue
		}
		p := prolog.New(strings.NewReader(""), &bytes.Buffer{})
		_ = p.Exec(":- dynamic(seen/1).")
		for _, hist := range hists {
			for mode := 0; mode < 3; mode++ {
				ctx, cancel := context.WithCancel(context.Background())
				if mode == 1 {
					cancel()
				}
				sols, err := p.QueryContext(ctx, q)
				if err != nil {
					cancel()
					continue
				}
				for i := 0; i < len(hist); i++ {
					switch hist[i] {
					case 'N':
						sols.Next()
					case 'S':
						var dst struct{ X interface{} }
						_ = sols.Scan(&dst)
					case 'E':
						_ = sols.Err()
					case 'C':
						_ = sols.Close()
					}
					if mode == 2 && i == 0 {
						cancel()
					}
				}
				// the caller goes on using what it has: a late Err and Close, as a deferred clean-up would do
				_ = sols.Err()
				_ = sols.Close()
				_ = sols.Err()
				if mode == 0 {
					// (in the other modes the context is cancelled already; a second cancel() would take the
					// context's lock once more and thereby order the accesses above before the search
					// goroutine's last steps, hiding them from the detector)
					cancel()
				}
				n++
			}
		}
	}
	w.Eval(n)
	w.Transitions(n)
	w.States(1)
	w.Traces(1)
	w.Nontrivial(fmt.Sprint("c12-histories", w.Shard))
	w.Outcome("iterator-histories")
}

// c14RaceHammer: 8 interpreters do nothing but create and write the SAME never-seen atoms, numbers next to operators
// and operator terms in tight loops at the same time. The ordinary bodies take the atom table's write lock so often
// (every token of every query is interned) that two accesses to other process-wide state are almost always ordered
// by it in the detector's eyes; here thousands of them fall between two acquisitions.
func c14RaceHammer(w *h.W) {
	n := 8
	loops := []string{
		"between(1, %d, I), number_codes(I, Cs), atom_codes(A, [0'h, 0' |Cs]), writeq(A), fail",
		"between(1, %d, I), number_codes(I, Cs), atom_codes(A, [0'H|Cs]), print(f(A, 'it''s')), fail",
		"between(1, %d, I), number_codes(I, Cs), atom_codes(A, [0'k|Cs]), write_canonical([A, I - 1, - I, 1 - A]), fail",
		"between(1, %d, I), number_codes(I, Cs), atom_codes(A, [0'm, 0'.|Cs]), write_term(A + I, [quoted(true)]), atom_length(A, _), fail",
		"between(1, %d, I), number_codes(I, Cs), atom_codes(A, [0'v|Cs]), T =.. [A, X, Y], copy_term(T, T2), writeq(T2), fail",
	}
	iters := w.Pick(1500, 6000)
	var wg sync.WaitGroup
	for i := 0; i < n; i++ {
		wg.Add(1)
		go func(i int) {
			defer wg.Done()
			p := prolog.New(strings.NewReader(""), io.Discard)
			for _, l := range loops {
				sols, err := p.Query(fmt.Sprintf("("+l+" ; true).", iters))
				if err != nil {
					continue
				}
				sols.Next()
				sols.Close()
			}
		}(i)
	}
	wg.Wait()
	w.Eval(n * len(loops))
	w.Transitions(n * len(loops) * iters)
	w.States(1)
	w.Traces(1)
	w.Nontrivial(fmt.Sprint("hammer", w.Shard))
	w.Outcome("hammer-round")
}

func c14RaceWork(w *h.W) {
	c14RaceHammer(w)
	c12RaceHistories(w)
	c14RaceMatrix(w)
	rounds := w.Pick(40, 400)
	n := 8
	for r := 0; r < rounds; r++ {
		if w.Expired() {
			return
		}
		var wg sync.WaitGroup
		errs := make([]error, n)
		outs := make([]*bytes.Buffer, n)
		for i := 0; i < n; i++ {
			wg.Add(1)
			outs[i] = &bytes.Buffer{}
			go func(i int) {
				defer wg.Done()
				errs[i] = c14RaceBody(i, r*16+w.Shard, outs[i])
			}(i)
		}
		wg.Wait()
		w.Eval(n)
		w.States(1)
		w.Transitions(n * 13)
		w.Traces(1)
		w.Nontrivial(fmt.Sprint("round", r, w.Shard))
		for i := range errs {
			if errs[i] != nil {
				w.Outcome("error")
				w.Violation("race-pass: a query failed while interpreters ran concurrently", map[string]interface{}{"round": r, "interpreter": i}, "every interpreter answers as when run alone", errs[i].Error(), 1)
			} else if outs[i].String() != outs[0].String() {
				w.Outcome("output-differs")
				w.Violation("race-pass: output differs between identical interpreters run concurrently", map[string]interface{}{"round": r, "interpreter": i}, outs[0].String(), outs[i].String(), 1)
			} else {
				w.Outcome("ok")
			}
		}
		w.Outcome(fmt.Sprintf("round-mod-%d", r%2))
	}
}

func raceStderr(stderr string) *h.Violation {
	i := strings.Index(stderr, "WARNING: DATA RACE")
	if i < 0 {
		return nil
	}
	rep := stderr[i:]
	if j := strings.Index(rep, "=================="); j > 0 {
		rep = rep[:j]
	}
	// signature: the two top frames
	var frames []string
	for _, l := range strings.Split(rep, "\n") {
		l = strings.TrimSpace(l)
		if strings.HasPrefix(l, "github.com/ichiban/prolog") && len(frames) < 2 {
			if k := strings.Index(l, "("); k > 0 {
				l = l[:k]
			}
			frames = append(frames, l)
		}
	}
	if len(rep) > 3000 {
		rep = rep[:3000]
	}
	return &h.Violation{Sig: "data race: " + strings.Join(frames, " / "), Case: []byte(`{"race_pass":true}`), Expected: "no data race", Actual: rep, Size: 1}
}

func init() {
	h.Register(&h.Check{
		ID:     "C14race",
		Hidden: true,
		Rule:   "free-running -race pass: rounds of 8 interpreters created, loaded, queried (atom creation with colliding names, variable creation, database updates, operators, flags, I/O, early Close) concurrently on real goroutines; one round in which 8 interpreters run the whole goal matrix (every registered procedure x argument-shape tuples) at the same time while their callers read the results they were handed; and every call history of length <= 4 (5) over {Next, Scan, Err, Close} on 8 query kinds under a live, an already cancelled and a later cancelled context (the consumer and the search goroutine of one iterator); and a hammer round in which 8 interpreters create and write the same never-seen atoms, numbers next to operators and operator terms in tight loops of 1500 (6000) iterations",
		Explanation: "dynamic analysis (Go race detector) on free-running executions; complements the controlled exploration",
		Work:   c14RaceWork,
		Procs:  "8",
		Workers: func(string) int { return 2 },
		StderrViolation: raceStderr,
		MinOutcomes:     2,
		QuickDeadline: 100 * time.Second, ThoroughDeadline: 10 * time.Minute,
	})
}
