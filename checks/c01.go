package checks

import (
	"fmt"
	"regexp"
	"strings"
	"time"

	"verif/h"
	"verif/ref"
)

// C01 — answers are those of depth-first, left-to-right SLD resolution, in order.

var digitsRe = regexp.MustCompile(`[0-9]+`)

var quotedRe = regexp.MustCompile(`"[^"]*"`)

func whyClass(s string) string {
	s = quotedRe.ReplaceAllString(s, "S")
	if i := strings.Index(s, "reference "); i > 0 && strings.HasPrefix(s, "error term differs") {
		s = s[:i]
	}
	if i := strings.Index(s, "reference raises "); i >= 0 {
		if j := strings.Index(s, "; implementation"); j > i {
			s = s[:i] + "reference raises a ball" + s[j:]
		}
	}
	if len(s) > 60 {
		s = s[:60]
	}
	return digitsRe.ReplaceAllString(s, "N")
}

// runProgCase runs pc, records evidence and reports a violation with signature prefix fam.
func runProgCase(w *h.W, fam string, pc *h.ProgCase, size int) {
	runProgCaseF(w, fam, nil, pc, size)
}

// runProgCaseF is runProgCase with a refinement of the signature for the differing step.
func runProgCaseF(w *h.W, fam string, refine func(r *h.StepResult) string, pc *h.ProgCase, size int) {
	w.Guard(pc)
	res, first, inconc := h.RunProg(pc)
	w.Unguard()
	w.Eval(1)
	w.States(1)
	w.Transitions(len(res))
	nontrivial := false
	for _, r := range res {
		if len(r.RefAns) > 0 || r.RefState == "error" {
			nontrivial = true
		}
		w.Outcome(fam + ":" + r.RefState + ":" + r.Verdict)
	}
	if inconc {
		w.Inconclusive(1)
	} else {
		w.Traces(1)
	}
	if nontrivial {
		w.Nontrivial(pc.Describe())
	}
	w.Sample(pc.Describe())
	if first >= 0 {
		r := res[first]
		exp := r.RefState + " " + ref.MustJSON(r.RefAns)
		if r.RefErr != "" {
			exp += " err=" + r.RefErr
		}
		if r.RefOut != "" {
			exp += " out=" + r.RefOut
		}
		// keep only the steps up to the differing one, for a small replay
		small := *pc
		var steps []h.ProgStep
		for i, s := range pc.Steps {
			if s.Kind == "consult" || i == first || s.NoCompare {
				steps = append(steps, s)
			}
			if i == first {
				break
			}
		}
		small.Steps = steps
		if _, f2, _ := h.RunProg(&small); f2 < 0 {
			small = *pc // the reduction lost the violation (state dependent): keep everything
		}
		sig := fam + ": " + whyClass(r.Why)
		if refine != nil {
			if s := refine(&r); s != "" {
				sig = fam + ": " + s
			}
		}
		w.Violation(sig, &small, exp, r.Impl.String()+"  ("+r.Why+")", size)
	}
}

var c01Menu = []string{
	"p(a)", "p(b)", "p(X)", "p(f(X))",
	"p(X) :- q(X)",
	"p(f(Y)) :- q(Y)",
	"p(f(X)) :- p(X)",
	"p(X) :- q(X), q(X)",
	"p(X) :- q(Y), q(X)",
	"p(X) :- (q(X) ; X = c)",
	"p(X) :- (X = a ; X = b), q(X)",
	"p(X) :- call(q, X)",
	"p(X) :- G = q(X), call(G)",
	"p(g(X,Y)) :- q(X), q(Y)",
	"q(a)", "q(b)", "q(X)",
	"q(X) :- p(X)",
	"q(f(X)) :- q(X)",
	"q([X|T]) :- p(X), (T = [] ; T = [X])",
	"q(X) :- p(f(X))",
}

var c01Queries = []string{"p(X)", "p(a)", "p(f(Z))", "q(X)", "p(X), q(Y)", "q([A,B|C])", "p(g(U,V))"}

func c01F1(w *h.W) {
	menu := make([]T, len(c01Menu))
	for i, s := range c01Menu {
		menu[i] = rd(s)
	}
	maxK := w.Pick(3, 4)
	for k := 1; k <= maxK; k++ {
		seqs(k, len(menu), func(idx []int) bool {
			if !w.Mine() {
				return true
			}
			if w.Expired() {
				return false
			}
			var cls []T
			// group clauses by predicate (keeping relative order) so that the text is contiguous
			for _, pred := range []string{"p", "q"} {
				for _, i := range idx {
					if c01Menu[i][0] == pred[0] {
						cls = append(cls, menu[i])
					}
				}
			}
			pc := &h.ProgCase{Steps: []h.ProgStep{h.Consult(cls...)}}
			for _, q := range c01Queries {
				pc.Steps = append(pc.Steps, h.Query(rd(q), 8))
			}
			runProgCase(w, "F1", pc, k)
			return true
		})
	}
}

var c01Sig = []Functor{{"f", 1}, {"g", 2}, {".", 2}}

func c01Leaves() []T { return []T{A("a"), V("X"), V("Y"), ref.Nil} }

func c01F2(w *h.W) {
	small := termsUpTo(c01Leaves(), c01Sig, 1) // 40 terms
	big := termsUpTo(c01Leaves(), c01Sig, 2)
	if !w.Thorough() {
		// quick: depth-2 terms over a reduced leaf set
		big = termsUpTo([]T{A("a"), V("X"), ref.Nil}, c01Sig, 2)
	}
	qv := func(t T) T { return renameVars(t, "Q") } // query variables are distinct from clause variables
	// (a) one fact with a deep head, all shallow calls; (b) shallow heads, all deep calls
	for _, hd := range big {
		if !w.Mine() {
			continue
		}
		if w.Expired() {
			return
		}
		pc := &h.ProgCase{Steps: []h.ProgStep{h.Consult(Cm("h", hd))}}
		for _, a := range small {
			pc.Steps = append(pc.Steps, h.Query(Cm("h", qv(a)), 4))
		}
		runProgCase(w, "F2a", pc, ref.Size(hd))
	}
	for _, hd := range small {
		const chunk = 64
		for off := 0; off < len(big); off += chunk {
			if !w.Mine() {
				continue
			}
			if w.Expired() {
				return
			}
			pc := &h.ProgCase{Steps: []h.ProgStep{h.Consult(Cm("h", hd))}}
			for i := off; i < off+chunk && i < len(big); i++ {
				pc.Steps = append(pc.Steps, h.Query(Cm("h", qv(big[i])), 4))
			}
			runProgCase(w, "F2b", pc, ref.Size(hd))
		}
	}
	// (c) structure built in the body and passed out through a second predicate
	for _, t := range big {
		if !w.Mine() {
			continue
		}
		pc := &h.ProgCase{Steps: []h.ProgStep{
			h.Consult(rule(Cm("h", V("R")), Cm("e", t, V("R"))), rd("e(Z, Z)"),
				rule(Cm("k", V("R"), V("X"), V("Y")), Cm("e", t, V("R")))),
			h.Query(rd("h(R)"), 4), h.Query(rd("k(R, 1, Y)"), 4), h.Query(rd("k(R, V, V)"), 4),
		}}
		runProgCase(w, "F2c", pc, ref.Size(t))
	}
	// (d) two clauses: all pairs of shallow heads, all shallow calls
	for _, h1 := range small {
		for _, h2 := range small {
			if !w.Mine() {
				continue
			}
			if w.Expired() {
				return
			}
			pc := &h.ProgCase{Steps: []h.ProgStep{h.Consult(Cm("h", h1), Cm("h", h2))}}
			for _, a := range small {
				pc.Steps = append(pc.Steps, h.Query(Cm("h", qv(a)), 4))
			}
			runProgCase(w, "F2d", pc, ref.Size(h1)+ref.Size(h2))
		}
	}
}

// renameVars returns a copy of t whose variables are renamed with a prefix (sharing preserved).
func renameVars(t T, prefix string) T {
	m := map[*ref.Var]*ref.Var{}
	var rec func(t T) T
	rec = func(t T) T {
		switch x := t.(type) {
		case *ref.Var:
			if nv, ok := m[x]; ok {
				return nv
			}
			nv := V(prefix + x.Name)
			m[x] = nv
			return nv
		case *ref.Cmp:
			args := make([]T, len(x.Args))
			for i, a := range x.Args {
				args[i] = rec(a)
			}
			return &ref.Cmp{F: x.F, Args: args}
		}
		return t
	}
	return rec(t)
}

var c01Items = []string{
	"g1(X)", "g2(Y)", "X = 1", "Y = b",
	"call(g1, X)", "call(g2(Y))", "G = g1(X), call(G)",
	"(g1(X) ; X = 3)", "(g1(X), g2(Y))", "call((g1(X), g2(Y)))", "call((g2(Y) ; Y = c))",
	"(true ; g2(Y))", "(X = 2 ; X = 1 ; X = 2)", "((g1(X) ; g2(Y)), true)", "g3(X, Y)", "call(g3, X, Y)", "call(g3(X), Y)",
	// a goal term built once and called later, possibly on several branches of a choice point
	"G = g3(X, Y)", "call(G)", "G",
}

const c01F3Prog = `
g1(1). g1(2).
g2(a). g2(b).
g3(1, a). g3(2, b). g3(1, c).
`

func c01F3(w *h.W) {
	base := rdAll(c01F3Prog)
	maxLen := w.Pick(3, 4)
	for n := 1; n <= maxLen; n++ {
		seqs(n, len(c01Items), func(idx []int) bool {
			if !w.Mine() {
				return true
			}
			vars := map[string]*ref.Var{}
			var body []T
			for _, i := range idx {
				body = append(body, rdv(c01Items[i], vars))
			}
			head := rdv("t(X, Y)", vars)
			// the same body as a clause, as a top-level disjunct and directly as a query
			cls := append(append([]T{}, base...), rule(head, body...), rule(rdv("u(X, Y)", vars), Cm(";", conj(body...), rdv("(X = z, Y = z)", vars))))
			pc := &h.ProgCase{Steps: []h.ProgStep{h.Consult(cls...),
				h.Query(rd("t(X, Y)"), 32), h.Query(rd("t(1, Y)"), 32), h.Query(rd("t(X, b)"), 32), h.Query(rd("u(X, Y)"), 32),
				h.Query(conj(body...), 32), h.Query(rd("t(X, Y), t(Y2, X2)"), 40)}}
			runProgCase(w, "F3", pc, n)
			return true
		})
	}
	// call/N: every split of a wide goal into closure + extra arguments, with distinct arguments
	wide := rdAll("w(1,2,3,4,5,6,7,8). w(a,b,c,d,e,f,g,h). v(1,2). v(3,4).")
	names := []string{"A", "B", "C", "D", "E", "F", "G", "H"}
	for extra := 1; extra <= 7; extra++ {
		for bound := 0; bound < 3; bound++ {
			if !w.Mine() {
				continue
			}
			vars := map[string]*ref.Var{}
			var all []T
			for i, n := range names {
				if bound == 1 && i == 0 {
					all = append(all, I(1))
				} else if bound == 2 && i == 7 {
					all = append(all, A("h"))
				} else {
					all = append(all, rdv(n, vars))
				}
			}
			var clo T = A("w")
			if extra < 8 {
				clo = &ref.Cmp{F: "w", Args: all[:8-extra]}
			}
			goal := &ref.Cmp{F: "call", Args: append([]T{clo}, all[8-extra:]...)}
			pc := &h.ProgCase{Steps: []h.ProgStep{h.Consult(wide...), h.Query(goal, 8),
				h.Query(Cm(",", Cm("=", V("Clo"), clo), &ref.Cmp{F: "call", Args: append([]T{V("Clo")}, all[8-extra:]...)}), 8)}}
			runProgCase(w, "F3call", pc, extra)
		}
	}
}

// strings in heads vs lists in calls, under each double_quotes flag
func c01F4(w *h.W) {
	str := func(s string) T { return Cm("$str", A(s)) }
	heads := []T{str("ab"), str(""), str("a"), Cm("f", str("ab")), ref.PList(V("T"), str("ab")), ref.List(str("ab"), A("c"))}
	calls := []string{"h(X)", "h([A,B])", "h([A|B])", "h([a,b])", "h([97,98])", "h([a|T])", "h([])", "h(ab)", "h(f(X))", "h(f([a|T]))", "h([[a,b]|T])", "h([[97,98],c])", "h([X,c])", "h('.'(a,'.'(b,[])))"}
	for _, dq := range []string{"codes", "chars", "atom"} {
		for _, hd := range heads {
			if !w.Mine() {
				continue
			}
			pc := &h.ProgCase{DQ: dq, Steps: []h.ProgStep{h.Consult(Cm("h", hd), rule(Cm("k", V("R")), Cm("=", V("R"), hd)))}}
			for _, c := range calls {
				pc.Steps = append(pc.Steps, h.Query(rd(c), 4))
			}
			pc.Steps = append(pc.Steps, h.Query(rd("k(R)"), 4), h.Query(Cm("h", hd), 4))
			runProgCase(w, "F4", pc, 1)
		}
	}
}

// F5: head list patterns against every way of building the argument list out of nested partial
// lists whose tails are bound before or after.
func c01F5(w *h.W) {
	elems := []T{A("a"), A("b"), A("c"), A("d"), A("e")}
	hvars := []string{"A", "B", "C", "D", "E"}
	for n := 0; n <= w.Pick(4, 5); n++ {
		// compositions of n: bitmask over the n-1 gaps
		nmasks := 1
		if n > 1 {
			nmasks = 1 << (n - 1)
		}
		for mask := 0; mask < nmasks; mask++ {
			for order := 0; order < 2; order++ {
				for openTail := 0; openTail < 2; openTail++ {
					if !w.Mine() {
						continue
					}
					vars := map[string]*ref.Var{}
					var parts [][]T
					cur := []T{}
					for i := 0; i < n; i++ {
						cur = append(cur, elems[i])
						if i == n-1 || mask&(1<<i) != 0 {
							parts = append(parts, cur)
							cur = []T{}
						}
					}
					// L = [part1|T1], T1 = [part2|T2], ..., Tk = [] (or left open)
					var goals []T
					prev := T(rdv("L", vars))
					for i, p := range parts {
						tv := rdv("T"+string(rune('1'+i)), vars)
						goals = append(goals, Cm("=", prev, ref.PList(tv, p...)))
						prev = tv
					}
					if openTail == 0 {
						goals = append(goals, Cm("=", prev, ref.Nil))
					}
					if order == 1 {
						for i, j := 0, len(goals)-1; i < j; i, j = i+1, j-1 {
							goals[i], goals[j] = goals[j], goals[i]
						}
					}
					var cls []T
					var queries []h.ProgStep
					for k := 0; k <= 5; k++ {
						for closed := 0; closed < 2; closed++ {
							hv := map[string]*ref.Var{}
							var pre []T
							for i := 0; i < k; i++ {
								pre = append(pre, rdv(hvars[i], hv))
							}
							tail := T(ref.Nil)
							if closed == 0 {
								tail = rdv("T", hv)
							}
							name := "h" + string(rune('0'+k)) + string(rune('a'+closed))
							res := ref.List(append(append([]T{}, pre...), tail)...)
							cls = append(cls, Cm(name, ref.PList(tail, pre...), res))
							// the list is passed as a body argument of the clause ...
							cls = append(cls, rule(Cm("t"+name, rdv("L", vars), V("R")), append(append([]T{}, goals...), Cm(name, rdv("L", vars), V("R")))...))
							queries = append(queries, h.Query(rd("t"+name+"(L, R)"), 4))
							// ... and built in the query itself
							queries = append(queries, h.Query(conj(append(append([]T{}, goals...), Cm(name, rdv("L", vars), V("R")))...), 4))
						}
					}
					// a partial list written directly as a body argument with a bound tail
					if len(parts) >= 2 {
						cls = append(cls, rule(Cm("direct", V("R")), Cm("=", V("X"), ref.List(flatten(parts[1:])...)), Cm("h3a", ref.PList(V("X"), parts[0]...), V("R"))))
						queries = append(queries, h.Query(rd("direct(R)"), 4))
					}
					pc := &h.ProgCase{Steps: append([]h.ProgStep{h.Consult(cls...)}, queries...)}
					runProgCase(w, "F5", pc, n)
				}
			}
		}
	}
	// sliding windows: recursion that re-passes a partial list built in the body
	progs := []string{
		"win([A,B,C|_], w(A,B,C)). win([_|T], W) :- win(T, W).",
		"win([A,B|_], w(A,B)). win([_,B|T], W) :- win([B|T], W).",
		"win([A,B,C|_], w(A,B,C)). win([_,B,C|T], W) :- win([B,C|T], W).",
		"win([A,B,C,D|_], w(A,B,C,D)). win([_,B,C,D|T], W) :- win([B,C,D|T], W).",
		"win(L, w(A,B,C)) :- append(_, [A,B,C|_], L).",
		"win(L, w(A,B)) :- append([_], [A,B|_], L).",
	}
	for _, p := range progs {
		if !w.Mine() {
			continue
		}
		pc := &h.ProgCase{Steps: []h.ProgStep{h.Consult(rdAll(p)...),
			h.Query(rd("win([a,b,c,d,e], W)"), 10), h.Query(rd("win([a,b,c], W)"), 10), h.Query(rd("win([a,b|T], W), T = [c,d]"), 10),
			h.Query(rd("T = [c,d,e], win([a,b|T], W)"), 10), h.Query(rd("append([a], [b,c,d], L), win(L, W)"), 10), h.Query(rd("append([a,b], T, L), T = [c,d], win(L, W)"), 10)}}
		runProgCase(w, "F5win", pc, 2)
	}
}

func flatten(parts [][]T) []T {
	var out []T
	for _, p := range parts {
		out = append(out, p...)
	}
	return out
}

// F6: sweep of the head size (number of head instructions = distinct arguments) against top-level
// disjunctive bodies, in clauses, called goals and queries: any size-dependent behaviour of the
// clause compiler's buffers (capacity boundaries) falls on some size.
func c01F6(w *h.W) {
	bodies := []string{
		"(X = 1 ; X = 2)", "(fail ; true)", "(true ; fail ; X = 3)", "(g1(X) ; g2(X) ; X = z)", "(X = 1, Y = a ; X = 2, Y = b ; Y = c)",
		"(g1(X), g2(Y) ; g2(Y) ; g1(X))", "(g2(Y) ; g1(X), g2(Y), X = 2)",
	}
	base := rdAll("g1(1). g1(2). g2(a). g2(b).")
	for n := 0; n <= w.Pick(34, 70); n++ {
		for bi, b := range bodies {
			if !w.Mine() {
				continue
			}
			vars := map[string]*ref.Var{}
			var as []T
			var probe []T
			for i := 1; i <= n; i++ {
				as = append(as, rdv(fmt.Sprintf("A%d", i), vars))
				probe = append(probe, A("k"))
			}
			body := rdv(b, vars)
			// the head: n plain variable arguments, or compound arguments that cost several instructions
			head := &ref.Cmp{F: "hd", Args: append(append([]T{}, as...), rdv("X", vars), rdv("Y", vars))}
			head2 := &ref.Cmp{F: "hc", Args: []T{ref.List(as...), Cm("f", rdv("X", vars), rdv("Y", vars))}}
			cls := append(append([]T{}, base...), Cm(":-", head, body), Cm(":-", head2, body))
			q1 := &ref.Cmp{F: "hd", Args: append(append([]T{}, probe...), V("X"), V("Y"))}
			q2 := &ref.Cmp{F: "hc", Args: []T{ref.List(probe...), Cm("f", V("X"), V("Y"))}}
			// the same disjunction called through call/1 with n additional free variables in the goal
			var extra []T
			for i := 1; i <= n; i++ {
				extra = append(extra, Cm("=", V(fmt.Sprintf("B%d", i)), V(fmt.Sprintf("B%d", i))))
			}
			q3 := Cm("call", Cm(",", conj(extra...), rd(b)))
			q4 := Cm("call", Cm(";", Cm(",", conj(extra...), rd("X = first")), rd(b)))
			pc := &h.ProgCase{Steps: []h.ProgStep{h.Consult(cls...), h.Query(q1, 12), h.Query(q2, 12)}}
			s3, s4 := h.Query(q3, 12), h.Query(q4, 12)
			s3.Vars, s4.Vars = []string{"X", "Y"}, []string{"X", "Y"}
			pc.Steps = append(pc.Steps, s3, s4)
			runProgCase(w, "F6", pc, n+bi)
		}
	}
}

// F7: sweep of the NUMBER of clauses of a predicate (1..24/40) whose first head arguments are of every
// kind (atoms, numbers, strings, lists, compounds, variables, non-ASCII), called with every such value in
// every representation and with an unbound argument: whatever selects clauses by the call's first
// argument, at whatever size threshold, must select exactly those SLD resolution selects, in order.
func c01F7(w *h.W) { clauseCountSweep(w, "F7") }

func clauseCountSweep(w *h.W, fam string) {
	keys := []string{"a", "\"ab\"", "[a, b]", "f(x)", "1", "\"日本\"", "X", "b", "[a|T]", "2.0", "\"\"", "[]", "\"ab\"", "f(Y)", "'日'", "[97]", "\"a\"", "g(\"ab\")", "a"}
	calls := []string{
		"c(a, I)", "c(b, I)", "c(K, I)", "c(\"ab\", I)", "c([a, b], I)", "atom_chars(ab, K), c(K, I)", "append([a], [b], K), c(K, I)", "c([a|_], I)", "c([a, b|_], I)",
		"K = [a|T], T = [b], c(K, I)", "c('.'(a, '.'(b, [])), I)", "c(\"日本\", I)", "c(['日', '本'], I)", "atom_chars('日本', K), c(K, I)", "c(['日'|_], I)", "c(f(Z), I)", "c(f(x), I)",
		"c(1, I)", "c(2.0, I)", "c(1.0, I)", "c([], I)", "c(\"\", I)", "c('日', I)", "c([97], I)", "c(\"a\", I)", "c([a], I)", "c(g([a, b]), I)", "c(g(\"ab\"), I)", "findall(E, member(E, [a, b]), K), c(K, I)",
	}
	for n := 1; n <= w.Pick(24, 40); n++ {
		if !w.Mine() {
			continue
		}
		var cls []T
		for i := 0; i < n; i++ {
			cls = append(cls, rd(fmt.Sprintf("c(%s, %d)", keys[i%len(keys)], i)))
		}
		pc := &h.ProgCase{DQ: "chars", Steps: []h.ProgStep{h.Consult(cls...)}}
		for _, q := range calls {
			st := h.Query(rd(q), 45)
			st.Vars = []string{"I"}
			pc.Steps = append(pc.Steps, st)
		}
		// the same program built by assertz/1
		pa := &h.ProgCase{DQ: "chars"}
		for _, c := range cls {
			pa.Steps = append(pa.Steps, h.Query(Cm("assertz", c), 2))
		}
		for _, q := range calls {
			st := h.Query(rd(q), 45)
			st.Vars = []string{"I"}
			pa.Steps = append(pa.Steps, st)
		}
		runProgCase(w, fam, pc, n)
		runProgCase(w, fam+"-assert", pa, n)
	}
}

// F8: predicates whose clauses stand in several runs of every length (discontiguous/1), with other predicates of
// every size between the runs: each predicate answers with exactly its own clauses, in text order.
func c01F8(w *h.W) { discontiguousRuns(w, "F8") }

// discontiguousRuns is shared with C10 (there: the loaded text against the same clauses asserted).
func discontiguousRuns(w *h.W, fam string) {
	maxRun := w.Pick(17, 34)
	for k := 1; k <= maxRun; k++ {
		for m := 1; m <= 3; m++ {
			for second := 1; second <= 3; second++ {
				if !w.Mine() {
					continue
				}
				cls := []T{rd(":- discontiguous(p/1)")}
				n := 0
				for i := 0; i < k; i++ {
					n++
					cls = append(cls, rd(fmt.Sprintf("p(%d)", n)))
				}
				for i := 0; i < m; i++ {
					cls = append(cls, rd(fmt.Sprintf("q(%d, X) :- r(X)", i)))
				}
				cls = append(cls, rd("r(a)"), rd("r(b)"))
				for i := 0; i < second; i++ {
					n++
					cls = append(cls, rd(fmt.Sprintf("p(%d)", n)))
				}
				cls = append(cls, rd("s(X, Y) :- p(X), q(Y, _)"), rd("p(last)"))
				pc := &h.ProgCase{Steps: []h.ProgStep{h.Consult(cls...), h.Query(rd("p(X)"), 80), h.Query(rd("q(I, X)"), 20), h.Query(rd("r(X)"), 5), h.Query(rd("s(X, Y)"), 200), h.Query(rd("q(0, a)"), 3)}}
				runProgCase(w, fam, pc, k+m+second)
			}
		}
	}
}

// F9: the database GROWS (or is replaced) BETWEEN calls: a predicate of n1 clauses whose first head arguments are
// of every kind is loaded and called with every kind of first argument, then gets n2 more clauses - by a second
// text behind the same multifile/1 declaration, by a second text that replaces it (either side lacking the
// declaration), by assertz/1, by asserta/1, or loses its first clauses by retract/1 - and is called again, and once
// more after a third change. Whatever a call leaves behind for later calls (an index, a cache of the clause list, a
// compiled dispatch) must not be observable: the answers after the change are those of SLD resolution over the
// database as it then stands, for every size of the predicate before and after.
func c01F9(w *h.W) {
	keys := []string{"a", "\"ab\"", "[a, b]", "f(x)", "1", "k", "X", "b", "[a|T]", "2.0", "h", "[]", "g(1)", "f(Y)", "'日'", "[97]", "2", "g(\"ab\")", "a", "m", "f(x)", "3"}
	calls := []string{
		"c(a, I)", "c(b, I)", "c(K, I)", "c(k, I)", "c(h, I)", "c(m, I)", "c(\"ab\", I)", "c([a, b], I)", "c([a|_], I)", "c(f(Z), I)", "c(f(x), I)", "c(g(Z), I)",
		"c(1, I)", "c(2, I)", "c(3, I)", "c(2.0, I)", "c([], I)", "c('日', I)", "c([97], I)", "c(g([a, b]), I)", "K = k, c(K, I)", "d(k, I)", "d(K, I)", "d(a, I)", "e(I)",
	}
	cl := func(i int) T { return rd(fmt.Sprintf("c(%s, %d)", keys[i%len(keys)], i)) }
	rng := func(from, to int) []T {
		var out []T
		for i := from; i < to; i++ {
			out = append(out, cl(i))
		}
		return out
	}
	ask := func(pc *h.ProgCase) {
		for _, q := range calls {
			st := h.Query(rd(q), 60)
			st.Vars = []string{"I"}
			pc.Steps = append(pc.Steps, st)
		}
	}
	mf := rd(":- multifile(c/2)")
	dyn := rd(":- dynamic(c/2)")
	rest := []T{rd("d(K, I) :- c(K, I)"), rd("e(I) :- c(k, I) ; c(K, I), K == h")}
	with := func(first T, cs []T) []T { return append([]T{first}, cs...) }
	for n1 := 1; n1 <= w.Pick(14, 30); n1++ {
		for _, n2 := range []int{1, 2, 9} {
			for _, mode := range []string{"multifile", "multifile-dynamic", "replace-mf-plain", "replace-plain-mf", "replace-plain", "assertz", "asserta", "retract"} {
				if !w.Mine() {
					continue
				}
				pc := &h.ProgCase{DQ: "chars", Steps: []h.ProgStep{h.Consult(rest...)}}
				grow := func(from, to int) {
					switch mode {
					case "multifile":
						pc.Steps = append(pc.Steps, h.Consult(with(mf, rng(from, to))...))
					case "multifile-dynamic":
						pc.Steps = append(pc.Steps, h.Consult(append([]T{mf, dyn}, rng(from, to)...)...))
					case "replace-mf-plain":
						if from == 0 {
							pc.Steps = append(pc.Steps, h.Consult(with(mf, rng(from, to))...))
						} else {
							pc.Steps = append(pc.Steps, h.Consult(rng(from, to)...))
						}
					case "replace-plain-mf":
						if from == 0 {
							pc.Steps = append(pc.Steps, h.Consult(rng(from, to)...))
						} else {
							pc.Steps = append(pc.Steps, h.Consult(with(mf, rng(from, to))...))
						}
					case "replace-plain":
						pc.Steps = append(pc.Steps, h.Consult(rng(from, to)...))
					case "assertz", "asserta", "retract":
						if from == 0 {
							pc.Steps = append(pc.Steps, h.Consult(with(dyn, rng(from, to))...))
							return
						}
						for i := from; i < to; i++ {
							switch mode {
							case "assertz":
								pc.Steps = append(pc.Steps, h.Query(Cm("assertz", cl(i)), 2))
							case "asserta":
								pc.Steps = append(pc.Steps, h.Query(Cm("asserta", cl(i)), 2))
							default:
								// the first clause goes, and one comes in at the end
								pc.Steps = append(pc.Steps, h.Query(rd("retract(c(_, _))"), 1), h.Query(Cm("assertz", cl(i)), 2))
							}
						}
					}
				}
				grow(0, n1)
				ask(pc)
				grow(n1, n1+n2)
				ask(pc)
				grow(n1+n2, n1+n2+1)
				ask(pc)
				runProgCase(w, "F9-"+mode, pc, n1+n2)
			}
		}
	}
}

// F10: functors of the SAME NAME and different arities (and the atom of that name) meeting in head unification: every
// head argument of the set against every call argument of the set, at the top, inside a compound and inside a list,
// as facts and through a body unification. Whatever matches a compound argument against a head structure must compare
// name AND arity.
func c01F10(w *h.W) {
	shapes := []string{"f", "f(X)", "f(a)", "f(X, Y)", "f(a, b)", "f(X, X)", "f(X, Y, Z)", "f(a, b, c)", "f(a, X, c)", "f(f(a))", "f(f(a), f(a, b))", "f(f, f)", "g(a)", "g(a, b)", "'.'(a)", "[a]", "'.'(a, [], c)", "[]", "'[]'(a)", "{}", "'{}'(a)", "'{}'(a, b)"}
	wrap := []string{"%s", "g(%s)", "[%s]", "[a|%s]", "f(%s, %s)"}
	for wi, wr := range wrap {
		for hi := range shapes {
			if !w.Mine() {
				continue
			}
			mk := func(sh string) string {
				if strings.Count(wr, "%s") == 2 {
					return fmt.Sprintf(wr, sh, sh)
				}
				return fmt.Sprintf(wr, sh)
			}
			var cls []T
			// the head under test first, then every other shape as later clauses of the same predicate
			cls = append(cls, rd(fmt.Sprintf("p(%s, %d)", mk(shapes[hi]), hi)))
			for j := range shapes {
				if j != hi {
					cls = append(cls, rd(fmt.Sprintf("p(%s, %d)", mk(shapes[j]), j)))
				}
			}
			cls = append(cls, rd(fmt.Sprintf("q(A, I) :- A = %s, I = %d", mk(shapes[hi]), hi)), rd("r(A, I) :- p(A, I)"))
			pc := &h.ProgCase{Steps: []h.ProgStep{h.Consult(cls...)}}
			for _, a := range shapes {
				for _, q := range []string{"p(%s, I)", "q(%s, I)", "A = %s, r(A, I)"} {
					st := h.Query(rd(fmt.Sprintf(q, mk(a))), 60)
					pc.Steps = append(pc.Steps, st)
				}
			}
			pc.Steps = append(pc.Steps, h.Query(rd("p(A, I)"), 60))
			runProgCase(w, "F10", pc, wi*100+hi)
		}
	}
}

func c01Work(w *h.W) {
	c01F10(w)
	c01F9(w)
	c01F8(w)
	c01F7(w)
	c01F6(w)
	c01F3(w)
	c01F4(w)
	c01F5(w)
	c01F1(w)
	c01F2(w)
}

func init() {
	h.Register(&h.Check{
		ID: "C01",
		Rule: "bounded-exhaustive program enumeration: F1 all clause sequences of length <= K over a 21-clause menu for p/1, q/1 (facts, rules, direct and mutual recursion, nested disjunction, call/N, lists) x 7 queries; F2 all head terms of depth <= 2 over {a,X,Y,[],f/1,g/2,'.'/2} x all call arguments of depth <= 1 and vice versa, all bodies building such a term, all pairs of depth-1 heads; F3 all clause bodies of <= L items over 17 goal shapes (call/N, nested ;/, , closures) as clause, top-level disjunct and query, and every call/N split of an 8-ary goal; F4 string literals in heads vs list calls under each double_quotes flag; F5 every construction of a list from nested partial lists against head list patterns; F6 sweep of the head size 0..34 (70) against 7 top-level disjunctive bodies, in clauses and through call/1 with as many extra free variables; F7 sweep of the number of clauses 1..24 (40) of a predicate whose first head arguments are of every kind (atoms, numbers, strings, lists, compounds, variables, non-ASCII), loaded and asserted, called with 29 first arguments in every representation; F8 predicates whose clauses stand in two or three runs (discontiguous/1) of every length 1..17 (34) with 1..3 clauses of other predicates between them; F9 database growth BETWEEN calls: a predicate of 1..14 (30) clauses with first head arguments of every kind, called with 25 goals (bound and unbound first arguments, through rules and a disjunction), then given 1, 2 or 9 more clauses by a second multifile text (also dynamic), replaced by a second text (three ways of lacking the declaration), grown by assertz/1 or asserta/1, or shifted by retract/1 + assertz/1, called again, changed once more and called again; F10 functors of the same name and different arities (f/0..f/3, g/1, g/2, './1,2,3, []/0,1, {}/0,1,2): every head argument of 22 shapes against every call argument of them, at the top, inside a compound, inside a list, as a list tail and twice in one compound, as facts, through a body unification and through a rule. Non-trivial = the reference produces at least one answer or an error; distinct = distinct program+queries text.",
		Explanation: "state = one generated program (loaded into a fresh real interpreter); transition = one query run to exhaustion (or 8..40 answers) on the real interpreter whose full answer sequence, terminal status, error term and output are compared with the reference machine; traces_validated = programs whose every query was decided (reference within its step budget)",
		Assumptions: []string{
			"reference: ref/solve (goal-stack / choice-point machine with a destructive trail, ISO 13211-1 semantics, self-checked against the ISO examples for cut, catch/throw, all-solutions and database predicates)",
			"answers are captured structurally through the public Scanner interface and compared up to renaming of unbound variables, as sequences",
			"programs are written with the harness's own printer (fully parenthesised control operators, quoted atoms)",
		},
		Work:             c01Work,
		Replay:           h.ProgReplay,
		QuickDeadline:    120 * time.Second,
		ThoroughDeadline: 20 * time.Minute,
	})
}
