package checks

import (
	"bytes"
	"context"
	"encoding/json"
	"errors"
	"fmt"
	"os"
	"sort"
	"strings"
	"syscall"
	"testing/fstest"
	"time"

	"github.com/ichiban/prolog"
	"github.com/ichiban/prolog/engine"

	"verif/h"
	"verif/ref"
)

// C05 — no input crashes or wedges the host; every failure is a Prolog error term.

type c05Case struct {
	Kind  string `json:"kind"` // "text" or "goal"
	Text  string `json:"text,omitempty"`
	Via   string `json:"via,omitempty"` // Exec | Query
	Goal  string `json:"goal,omitempty"`
	NilIO bool   `json:"nil_io,omitempty"`
	Tag   string `json:"tag,omitempty"` // signature label for the arithmetic and stream matrices
	Setup string `json:"setup,omitempty"`
	Files bool   `json:"files,omitempty"` // run against the in-memory file system of family (g)
	// FileText / FileName: family (j), the file the goal opens (written before the goal runs)
	FileText string `json:"file_text,omitempty"`
	FileName string `json:"file_name,omitempty"`
	Deep     bool   `json:"deep,omitempty"` // family (h): one goal after Setup, first answer, 5 minute resource guard
	// SetupQuery: a query run first on the same interpreter (stream histories)
	SetupQuery string `json:"setup_query,omitempty"`
}

var c05Tokens = []string{"a", "X", "_", "0", "1", ".", ",", "|", "(", ")", "[", "]", "{", "}", "-", "+", "\\", "'", "\"", "0'", "0x", ":-", " ", "\n", "%", "é", "1.0e", "/*", "`"}

var c05Shapes = []string{
	"_", "a", "abc", "''", "[]", "1", "-1", "9223372036854775807", "-9223372036854775808", "1.5",
	"f(a)", "[a, b]", "[a|_]", "[a|b]", "\"ab\"", "S", "true", "(a, 1)", "[0'a]", "f(_)", "0", "user_input",
}

var c05Formal = map[string]int{"instantiation_error": 0, "type_error": 2, "domain_error": 2, "existence_error": 2, "permission_error": 3,
	"representation_error": 1, "evaluation_error": 1, "resource_error": 1, "syntax_error": 1, "system_error": 0}

// c05Judge inspects an error returned by the implementation. kind "" = fine.
func c05Judge(err error, fromPredicate bool) (kind string) {
	if err == nil {
		return ""
	}
	msg := err.Error()
	if strings.Contains(msg, "panic:") || strings.Contains(msg, "runtime error") || strings.Contains(msg, "nil pointer") || strings.Contains(msg, "index out of range") || strings.Contains(msg, "interface conversion") {
		return "the error is the residue of a recovered Go panic"
	}
	if errors.Is(err, context.DeadlineExceeded) || errors.Is(err, context.Canceled) {
		if fromPredicate {
			// first answer plus one retry on tiny arguments take microseconds; the horizon is seconds
			return "the call does not return (still running when the 5 s horizon passed)"
		}
		return ""
	}
	var ex engine.Exception
	if errors.As(err, &ex) {
		t := h.NewConv().Term(ex.Term(), nil)
		c, ok := t.(*ref.Cmp)
		if !ok || c.F != "error" || len(c.Args) != 2 {
			return "" // a user ball (throw/1 is among the procedures)
		}
		name, arity, _ := ref.Indicator(ref.Deref(c.Args[0]))
		if want, ok := c05Formal[name]; !ok || want != arity {
			if name == "system_error" {
				return ""
			}
			return "the Formal of the error is not an ISO formal error term: " + name + "/" + fmt.Sprint(arity)
		}
		return ""
	}
	if fromPredicate {
		return "a predicate failed with a Go error that is not a Prolog error term"
	}
	return "" // a Go error from parsing a text is the API's way of reporting a syntax error
}

func c05RunText(c *c05Case) (kind string, detail string) {
	defer func() {
		if r := recover(); r != nil {
			kind = "an unrecovered Go panic escaped " + c.Via
			detail = fmt.Sprint(r)
		}
	}()
	p := prolog.New(strings.NewReader(""), &bytes.Buffer{})
	ctx, cancel := context.WithTimeout(context.Background(), 5*time.Second)
	defer cancel()
	if c.Via == "Exec" {
		err := p.ExecContext(ctx, c.Text)
		if k := c05Judge(err, false); k != "" {
			return k, err.Error()
		}
		return "", ""
	}
	sols, err := p.QueryContext(ctx, c.Text)
	if err != nil {
		if k := c05Judge(err, false); k != "" {
			return k, err.Error()
		}
		return "", ""
	}
	sols.Next()
	sols.Next()
	err = sols.Err()
	sols.Close()
	if k := c05Judge(err, false); k != "" {
		return k, err.Error()
	}
	return "", ""
}

func c05RunGoal(p *prolog.Interpreter, c *c05Case) (kind string, detail string) {
	defer func() {
		if r := recover(); r != nil {
			kind = "an unrecovered Go panic escaped Query/Next"
			detail = fmt.Sprint(r)
		}
	}()
	ctx, cancel := context.WithTimeout(context.Background(), 5*time.Second)
	defer cancel()
	sols, err := p.QueryContext(ctx, c.Goal)
	if err != nil {
		return "the generated goal does not parse", err.Error()
	}
	sols.Next()
	sols.Next()
	err = sols.Err()
	sols.Close()
	if k := c05Judge(err, true); k != "" {
		return k, err.Error()
	}
	return "", ""
}

func c05NewInterp(nilIO bool) *prolog.Interpreter {
	if nilIO {
		return prolog.New(nil, nil)
	}
	return prolog.New(strings.NewReader("foo. bar(X). \"text\". 12"), &bytes.Buffer{})
}

func c05Procedures() []engine.VerifProc {
	p := prolog.New(nil, nil)
	ps := engine.VerifProcedures(&p.VM)
	sort.Slice(ps, func(i, j int) bool {
		if ps[i].Name != ps[j].Name {
			return ps[i].Name < ps[j].Name
		}
		return ps[i].Arity < ps[j].Arity
	})
	return ps
}

func c05Sig(c *c05Case, kind string) string {
	if c.Kind == "text" {
		return "text via " + c.Via + ": " + kind
	}
	if c.Tag != "" {
		return "goal " + c.Tag + ": " + kind
	}
	name := c.Goal
	if i := strings.Index(name, "), "); i >= 0 && strings.HasPrefix(name, "current_output(S") {
		name = name[i+3:]
	}
	if i := strings.IndexAny(name, "( ."); i > 0 {
		name = name[:i]
	}
	io := ""
	if c.NilIO {
		io = " [New(nil, nil)]"
	}
	return "goal " + name + io + ": " + kind
}

func c05Work(w *h.W) {
	emit := func(c *c05Case, kind, detail string, size int) {
		w.Eval(1)
		w.States(1)
		w.Transitions(1)
		w.Traces(1)
		if kind == "" {
			w.Outcome(c.Kind + ":ok")
			return
		}
		w.Outcome(c.Kind + ":bad")
		w.Violation(c05Sig(c, kind), c, "the call returns answers, failure or an ISO error term; the process survives", kind+": "+detail, size)
	}
	c05Deep(w, emit) // first: its cases are few and long
	// (a) texts: all token strings up to a length bound, with and without a final full stop
	maxLen := w.Pick(3, 4)
	for l := 0; l <= maxLen; l++ {
		seqs(l, len(c05Tokens), func(idx []int) bool {
			text := ""
			for _, i := range idx {
				text += c05Tokens[i]
			}
			for _, suffix := range []string{"", ".", " .\n"} {
				for _, via := range []string{"Exec", "Query"} {
					if !w.Mine() {
						continue
					}
					if w.Expired() {
						return false
					}
					c := &c05Case{Kind: "text", Text: text + suffix, Via: via}
					w.WAL(c)
					w.GuardFor(c, 20*time.Second)
					kind, detail := c05RunText(c)
					w.Unguard()
					w.Nontrivial(via + c.Text)
					emit(c, kind, detail, len(c.Text))
				}
			}
			return true
		})
		if l == 0 {
			continue
		}
	}
	// all byte strings of length <= 2
	for n := 1; n <= 2; n++ {
		total := 256
		if n == 2 {
			total = 65536
		}
		for v := 0; v < total; v++ {
			if !w.Thorough() && n == 2 && v%7 != 0 {
				continue // quick: every 7th two-byte string
			}
			var text string
			if n == 1 {
				text = string([]byte{byte(v)})
			} else {
				text = string([]byte{byte(v >> 8), byte(v)})
			}
			for _, via := range []string{"Exec", "Query"} {
				if !w.Mine() {
					continue
				}
				if w.Expired() {
					return
				}
				c := &c05Case{Kind: "text", Text: text + " .", Via: via}
				w.WAL(c)
				w.GuardFor(c, 20*time.Second)
				kind, detail := c05RunText(c)
				w.Unguard()
				emit(c, kind, detail, len(c.Text))
			}
		}
	}
	// (b) every registered procedure x argument shape tuples
	shapes := c05Shapes
	if !w.Thorough() {
		shapes = []string{"_", "a", "''", "[]", "1", "-1", "9223372036854775807", "1.5", "f(a)", "[a, b]", "[a|_]", "\"ab\"", "S", "(a, 1)"}
	}
	{
		var p *prolog.Interpreter
		n := 0
		run := func(c *c05Case, nilIO bool, size int) {
			if p == nil || n%200 == 0 {
				p = c05NewInterp(false)
			}
			n++
			w.WAL(c)
			w.GuardFor(c, 20*time.Second)
			kind, detail := c05RunGoal(p, c)
			w.Unguard()
			w.Nontrivial(c.Goal)
			emit(c, kind, detail, size)
		}
		c05Arith(w, run)
		c05Streams(w, run)
		c05DB(w, emit)
		c05StreamHistories(w, emit)
		c05Files(w, emit)
		c05MalformedFiles(w, emit)
	}
	for _, pr := range c05Procedures() {
		if pr.Name == "halt" {
			continue
		}
		tuple := shapes
		maxTuples := 1
		for i := 0; i < pr.Arity; i++ {
			maxTuples *= len(tuple)
		}
		if pr.Arity > 3 {
			tuple = []string{"_", "abc", "1", "[a, b]", "f(a)", "S", "9223372036854775807", "-1"}
			if pr.Arity > 5 {
				tuple = tuple[:6]
			}
		}
		p := c05NewInterp(false)
		pn := c05NewInterp(true)
		count := 0
		seqs(pr.Arity, len(tuple), func(idx []int) bool {
			if !w.Mine() {
				return true
			}
			if w.Expired() {
				return false
			}
			args := make([]string, len(idx))
			for k, i := range idx {
				args[k] = tuple[i]
			}
			goal := ref.QuoteAtom(pr.Name)
			if pr.Arity > 0 {
				goal += "(" + strings.Join(args, ", ") + ")"
			}
			full := goal
			if strings.Contains(goal, "S") {
				full = "current_output(S), " + goal
			}
			for _, nilIO := range []bool{false, true} {
				if nilIO && count%5 != 0 && !w.Thorough() {
					continue
				}
				c := &c05Case{Kind: "goal", Goal: full + " .", NilIO: nilIO}
				w.WAL(c)
				w.GuardFor(c, 20*time.Second)
				ip := p
				if nilIO {
					ip = pn
				}
				kind, detail := c05RunGoal(ip, c)
				w.Unguard()
				w.Nontrivial(c.Goal + fmt.Sprint(nilIO))
				emit(c, kind, detail, len(c.Goal))
			}
			count++
			if count%200 == 0 {
				// side effects (asserted clauses, opened streams, flags) accumulate: start afresh regularly
				p = c05NewInterp(false)
				pn = c05NewInterp(true)
			}
			return true
		})
	}
}

// (c) every evaluable functor of the dispatch tables x operand grid, under is/2 and two comparisons.
var c05Operands = []string{"_", "a", "0", "1", "-1", "2", "63", "64", "-64", "9223372036854775807", "-9223372036854775808",
	"0.0", "-0.0", "1.5", "-1.5", "1.0e308", "-1.0e308", "5.0e-324", "f(1)", "\"1\"", "[1]", "[1, 2]", "[]", "pi", "(1 + a)"}

func c05Arith(w *h.W, run func(c *c05Case, nilIO bool, size int)) {
	es := engine.VerifEvaluables()
	sort.Slice(es, func(i, j int) bool {
		if es[i].Name != es[j].Name {
			return es[i].Name < es[j].Name
		}
		return es[i].Arity < es[j].Arity
	})
	wrap := []string{"X is %s", "%s =:= 1", "1 < %s", "%s >= 1.0", "catch(X is %s, error(E, _), true)"}
	tag := ""
	emitExpr := func(e string, size int) {
		for _, wr := range wrap {
			if !w.Mine() {
				continue
			}
			run(&c05Case{Kind: "goal", Goal: fmt.Sprintf(wr, e) + " .", Tag: tag}, false, size)
		}
	}
	for _, ev := range es {
		f := ref.QuoteAtom(ev.Name)
		tag = fmt.Sprintf("evaluable %s/%d", ev.Name, ev.Arity)
		switch ev.Arity {
		case 0:
			emitExpr(f, 1)
		case 1:
			for _, a := range c05Operands {
				emitExpr(f+"("+a+")", 2)
				// nested: the operand is itself the result of each unary/binary functor on small values
				for _, in := range es {
					if w.Expired() {
						return
					}
					switch in.Arity {
					case 1:
						emitExpr(f+"("+ref.QuoteAtom(in.Name)+"("+a+"))", 3)
					case 2:
						if w.Thorough() {
							emitExpr(f+"("+ref.QuoteAtom(in.Name)+"("+a+", -1))", 3)
						}
					}
				}
			}
		case 2:
			for _, a := range c05Operands {
				for _, b := range c05Operands {
					if w.Expired() {
						return
					}
					emitExpr(f+"("+a+", "+b+")", 3)
				}
			}
		}
	}
}

// (d) stream-argument shapes beyond the open text output stream of (b): closed and open, input and
// output, text and binary streams of real files in the worker's scratch directory.
var c05StreamKinds = []struct{ name, prefix string }{
	{"closed-input", "open('c05in.txt', read, S), close(S), "},
	{"closed-output", "open('c05out.txt', write, S), close(S), "},
	{"text-input", "open('c05in.txt', read, S), "},
	{"binary-input", "open('c05in.txt', read, S, [type(binary)]), "},
	{"binary-output", "open('c05out.txt', write, S, [type(binary)]), "},
	{"text-input-at-end", "open('c05empty.txt', read, S), "},
	{"alias-closed", "open('c05in.txt', read, S0, [alias(al)]), close(S0), S = al, "},
}

var c05StreamOthers = []string{"_", "a", "0", "'c05in.txt'", "[]", "f(_)", "end_of_file", "[type(binary)]", "-1", "S"}

func c05Streams(w *h.W, run func(c *c05Case, nilIO bool, size int)) {
	os.WriteFile("c05in.txt", []byte("foo. bar(X). \"text\". 12 'a"), 0o644)
	os.WriteFile("c05empty.txt", nil, 0o644)
	for _, pr := range c05Procedures() {
		if pr.Name == "halt" || pr.Arity == 0 || pr.Arity > 4 {
			continue
		}
		for _, sk := range c05StreamKinds {
			for pos := 0; pos < pr.Arity; pos++ {
				seqs(pr.Arity-1, len(c05StreamOthers), func(idx []int) bool {
					if !w.Mine() {
						return true
					}
					if w.Expired() {
						return false
					}
					if pr.Arity == 4 && !w.Thorough() {
						for _, i := range idx {
							if i >= 5 {
								return true // quick: arity 4 uses the first five other shapes
							}
						}
					}
					var args []string
					k := 0
					for i := 0; i < pr.Arity; i++ {
						if i == pos {
							args = append(args, "S")
						} else {
							args = append(args, c05StreamOthers[idx[k]])
							k++
						}
					}
					goal := sk.prefix + ref.QuoteAtom(pr.Name) + "(" + strings.Join(args, ", ") + ")"
					run(&c05Case{Kind: "goal", Goal: goal + " .", Tag: fmt.Sprintf("%s/%d [%s stream]", pr.Name, pr.Arity, sk.name)}, false, len(goal))
					return true
				})
			}
		}
	}
}

// (e) goals that change the database under an open call: all conjunctions of <= L goals over a
// dynamic predicate with three clauses (and a static one), driven to exhaustion by a final fail.
var c05DBGoals = []string{
	"q(X)", "q(_)", "retract(q(X))", "retract(q(_))", "retract(q(2))", "retractall(q(_))", "assertz(q(4))", "asserta(q(0))",
	"abolish(q/1)", "once(q(X))", "clause(q(X), true)", "retract((q(X) :- B))", "s(X)", "assertz((q(X) :- s(X)))", "call(q, Y)",
	"findall(Z, retract(q(Z)), _)", "\\+ q(_)", "(q(X) ; retract(q(_)))", "catch(retract(s(_)), _, true)", "consult_q",
}

func c05DB(w *h.W, emit func(c *c05Case, kind, detail string, size int)) {
	setup := ":- dynamic(q/1). q(1). q(2). q(3). s(a). s(b). consult_q :- assertz(q(5)), retract(q(1))."
	maxLen := w.Pick(3, 4)
	for l := 1; l <= maxLen; l++ {
		seqs(l, len(c05DBGoals), func(idx []int) bool {
			if !w.Mine() {
				return true
			}
			if w.Expired() {
				return false
			}
			var gs []string
			for _, i := range idx {
				gs = append(gs, c05DBGoals[i])
			}
			for _, tail := range []string{", fail", ""} {
				c := &c05Case{Kind: "goal", Goal: strings.Join(gs, ", ") + tail + " .", Tag: "database history", Setup: setup}
				w.WAL(c)
				w.GuardFor(c, 20*time.Second)
				p := c05NewInterp(false)
				kind, detail := "", ""
				if err := p.Exec(setup); err != nil {
					kind, detail = "the setup text failed", err.Error()
				} else {
					kind, detail = c05RunGoalAll(p, c)
				}
				w.Unguard()
				w.Nontrivial(c.Goal)
				if kind == "horizon" {
					w.Eval(1)
					w.Outcome("goal:history cancelled at the horizon")
					continue
				}
				emit(c, kind, detail, l)
			}
			return true
		})
	}
}

// (f) stream-state histories: all sequences of <= L operations that change which streams exist and which
// are current (closing the standard streams included), each followed by every probe that uses a stream
var c05StreamOps = []string{
	"close(user_input)", "close(user_output)", "open('c05in.txt', read, S), set_input(S)", "open('c05out.txt', write, S), set_output(S)",
	"current_input(S), close(S)", "current_output(S), close(S)", "set_input(user_input)", "set_output(user_output)",
	"open('c05in.txt', read, _, [alias(al)])", "close(al)", "set_input(al)", "open('c05out.txt', append, _, [alias(al)])", "set_output(al)", "close(user_error)",
	// a stream with more than one alias; an open/4 that fails after an alias option
	"open('c05in.txt', read, _, [alias(al), alias(al2)])", "close(al2)", "open('c05in.txt', read, _, [alias(al3), bogus(1)])",
}

var c05StreamProbes = []string{
	"get_char(_)", "peek_char(_)", "read(_)", "at_end_of_stream", "write(x)", "nl", "put_char(a)", "flush_output",
	"current_input(S), stream_property(S, P)", "current_output(S), stream_property(S, P)", "stream_property(S, alias(A))", "current_input(S), get_char(S, _)",
	"current_output(S), write(S, x)", "get_char(user_input, _)", "write(user_output, x)", "write(user_error, x)", "findall(S, stream_property(S, _), L)",
	"get_char(al, _)", "get_char(al2, _)", "peek_char(al3, _)", "stream_property(S, alias(al)), get_char(S, _)", "stream_property(S, file_name(_)), stream_property(S, position(_)), peek_char(S, _)",
}

func c05StreamHistories(w *h.W, emit func(c *c05Case, kind, detail string, size int)) {
	maxLen := w.Pick(3, 4)
	for l := 1; l <= maxLen; l++ {
		seqs(l, len(c05StreamOps), func(idx []int) bool {
			if !w.Mine() {
				return true
			}
			if w.Expired() {
				return false
			}
			var gs []string
			for _, i := range idx {
				gs = append(gs, "catch(("+c05StreamOps[i]+"), _, true)")
			}
			setup := strings.Join(gs, ", ") + " ."
			for _, probe := range c05StreamProbes {
				c := &c05Case{Kind: "goal", Goal: probe + " .", Tag: "stream history", SetupQuery: setup}
				w.WAL(c)
				w.GuardFor(c, 20*time.Second)
				kind, detail := c05RunStreamHistory(c)
				w.Unguard()
				w.Nontrivial(setup + probe)
				emit(c, kind, detail, l)
			}
			return true
		})
	}
}

func c05RunStreamHistory(c *c05Case) (kind, detail string) {
	os.WriteFile("c05in.txt", []byte("foo. bar(X). \"text\". 12 'a"), 0o644)
	p := c05NewInterp(false)
	setup := &c05Case{Kind: "goal", Goal: c.SetupQuery}
	if kind, detail = c05RunGoal(p, setup); kind != "" {
		return "during the history: " + kind, detail
	}
	return c05RunGoal(p, c)
}

// (g) texts and goals that load other texts from a file system holding self-including, mutually including and
// mutually loading files, a long chain of inclusions, a missing file, a file with a syntax error
func c05FileSystem() fstest.MapFS {
	m := fstest.MapFS{
		"self.pl":  {Data: []byte(":- include(self).\n")},
		"self2.pl": {Data: []byte("s2(1).\n:- include('self2.pl').\ns2(2).\n")},
		"a.pl":     {Data: []byte("a(1).\n:- include(b).\n")},
		"b.pl":     {Data: []byte("b(1).\n:- include(a).\n")},
		"c.pl":     {Data: []byte("c(1).\n:- ensure_loaded(d).\n")},
		"d.pl":     {Data: []byte("d(1).\n:- ensure_loaded(c).\n")},
		"e.pl":     {Data: []byte("e(1).\n:- consult(e).\n")},
		"bad.pl":   {Data: []byte("ok(1).\nfoo(.\n")},
		"init.pl":  {Data: []byte(":- initialization(consult(init)).\n")},
		"twice.pl": {Data: []byte(":- include(leaf).\n:- include(leaf).\n")},
		"leaf.pl":  {Data: []byte(":- dynamic(leaf/1).\n")},
	}
	for i := 0; i < 300; i++ {
		m[fmt.Sprintf("chain%d.pl", i)] = &fstest.MapFile{Data: []byte(fmt.Sprintf("ch(%d).\n:- include(chain%d).\n", i, i+1))}
	}
	m["chain300.pl"] = &fstest.MapFile{Data: []byte("ch(300).\n")}
	return m
}

var c05FileNames = []string{"self", "'self.pl'", "self2", "a", "b", "c", "d", "e", "bad", "init", "twice", "leaf", "chain0", "chain290", "missing", "_", "1", "[a, c]", "f(x)", "''"}

func c05Files(w *h.W, emit func(c *c05Case, kind, detail string, size int)) {
	fsys := c05FileSystem()
	for _, n := range c05FileNames {
		for _, form := range []string{":- include(%s).", ":- ensure_loaded(%s).", ":- consult(%s).", ":- initialization(consult(%s)).", "t(1). :- include(%s). t(2).", "G:consult(%s)", "G:catch(consult(%s), _, true), consult(%s)", "G:[%s]"} {
			if !w.Mine() {
				continue
			}
			txt := strings.ReplaceAll(form, "%s", n)
			c := &c05Case{Kind: "text", Text: txt, Via: "Exec", Tag: "file system"}
			if strings.HasPrefix(txt, "G:") {
				c = &c05Case{Kind: "goal", Goal: strings.TrimPrefix(txt, "G:") + " .", Tag: "file system"}
			}
			c.Files = true
			w.WAL(c)
			w.GuardFor(c, 30*time.Second)
			kind, detail := c05RunFiles(c, fsys)
			w.Unguard()
			w.Nontrivial("fs:" + txt)
			emit(c, kind, detail, len(txt))
		}
	}
}

func c05RunFiles(c *c05Case, fsys fstest.MapFS) (kind, detail string) {
	defer func() {
		if r := recover(); r != nil {
			kind, detail = "an unrecovered Go panic escaped", fmt.Sprint(r)
		}
	}()
	p := c05NewInterp(false)
	p.FS = fsys
	ctx, cancel := context.WithTimeout(context.Background(), 10*time.Second)
	defer cancel()
	var err error
	if c.Kind == "goal" {
		// a goal that loads a text reports that text's faults the way Exec does (a Go error for a text that does
		// not parse is the API's syntax error report), so it is judged like a text
		sols, qerr := p.QueryContext(ctx, c.Goal)
		if qerr != nil {
			return "the generated goal does not parse", qerr.Error()
		}
		sols.Next()
		err = sols.Err()
		sols.Close()
	} else {
		err = p.ExecContext(ctx, c.Text)
	}
	if errors.Is(err, context.DeadlineExceeded) {
		return "the call does not return (still running when the 10 s horizon passed)", err.Error()
	}
	if k := c05Judge(err, false); k != "" {
		return k, err.Error()
	}
	return "", ""
}

// (h) deep recursion: a goal is small, the recursion it starts is not. Whatever the machine keeps on the Go stack per
// level of a recursion (continuations that call each other on exit, nested solvers) is bounded by that stack, and
// its overflow is fatal for the host. The memory bound of the property is taken as 2 GB of process memory with Go's
// default 1 GB stack limit; the workers run with a quarter of that stack (256 MB), so the depth is a quarter of the
// 1.2 million levels that fit into the bound: 300000. (Recursive traversals of a term nested millions deep overflow
// the stack, too, but only beyond the bound: building such a term takes more than 2 GB.)
const c05DeepProgram = `
count(0) :- !.
count(N) :- N1 is N - 1, count(N1).
count2(0).
count2(N) :- N > 0, N1 is N - 1, count2(N1).
nt(0, 0).
nt(N, S) :- N > 0, N1 is N - 1, nt(N1, S1), S is S1 + 1.
mk(0, []) :- !.
mk(N, [N|T]) :- N1 is N - 1, mk(N1, T).
len([], 0).
len([_|T], N) :- len(T, M), N is M + 1.
cc(0) :- !.
cc(N) :- N1 is N - 1, call(cc(N1)).
kc(0) :- !.
kc(N) :- N1 is N - 1, catch(kc(N1), _, true).
ite(0) :- !.
ite(N) :- ( N > 0 -> N1 is N - 1 ; N1 = 0 ), ite(N1).
dj(0).
dj(N) :- N > 0, N1 is N - 1, ( dj(N1) ; fail ).
ev(0) :- !.
ev(N) :- N1 is N - 1, od(N1).
od(0) :- !.
od(N) :- N1 is N - 1, ev(N1).
th(0) :- throw(bottom).
th(N) :- N > 0, N1 is N - 1, th(N1), true.
app([], L, L).
app([H|T], L, [H|R]) :- app(T, L, R).
`

var c05DeepGoals = []string{
	"count(%d).", "count2(%d).", "nt(%d, S).", "mk(%d, L), len(L, N).", "cc(%d).", "kc(%d).", "ite(%d).", "dj(%d).", "ev(%d).",
	"catch(th(%d), bottom, true).", "mk(%d, L), app(L, [z], R), atom(z).", "mk(%d, L), findall(L, true, [M]), L == M.",
}

// (j) files of malformed text read term by term and character by character under each eof_action: every operation
// returns, whatever the earlier ones left the stream in (past the end, in the middle of a rejected term).
var c05FileTexts = []string{"", "a.", "a. b", "ok(1).\nfoo bar", "foo )", "foo bar\n", "'abc", "f(", "0'", "a. /* c", "a.\n% c", "X = [-", "\"ab", "a :- .", ")))", "foo. )", "\xff\xfe."}
var c05FileOps = []string{"read(S, _)", "get_char(S, _)", "peek_char(S, _)", "at_end_of_stream(S)", "read_term(S, _, [singletons(_)])", "stream_property(S, position(_))"}

func c05MalformedFiles(w *h.W, emit func(c *c05Case, kind, detail string, size int)) {
	p := c05NewInterp(false)
	n := 0
	maxOps := w.Pick(3, 4)
	for ti, txt := range c05FileTexts {
		name := fmt.Sprintf("c05_mal_%d.txt", ti)
		if err := os.WriteFile(name, []byte(txt), 0o644); err != nil {
			continue
		}
		for _, act := range []string{"error", "eof_code", "reset"} {
			for l := 1; l <= maxOps; l++ {
				seqs(l, len(c05FileOps), func(idx []int) bool {
					if !w.Mine() {
						return true
					}
					if w.Expired() {
						return false
					}
					goal := fmt.Sprintf("open('%s', read, S, [eof_action(%s)])", name, act)
					for _, i := range idx {
						goal += ", catch(" + c05FileOps[i] + ", _, true)"
					}
					goal += ", close(S) ."
					c := &c05Case{Kind: "goal", Goal: goal, Tag: "malformed file", FileText: txt, FileName: name}
					if n%100 == 0 {
						p = c05NewInterp(false)
					}
					n++
					w.WAL(c)
					w.GuardFor(c, 20*time.Second)
					kind, detail := c05RunGoal(p, c)
					w.Unguard()
					w.Nontrivial(c.Goal + txt)
					emit(c, kind, detail, len(idx))
					return true
				})
			}
		}
	}
}

// (i) long lists and wide compounds: 3 million elements under the workers' stack limit stand for the 10 million (160 MB
// of cells) that fit into the bound with room to spare. A traversal that recurses once per element - a list is a
// right-nested term - needs a stack as deep as the list is long.
var c05LongGoals = []string{
	"length(L, %d), \\+ atom(L).", "length(L, %d), catch(throw(L), B, true), length(B, K).", "length(L, %d), G = foo(L), \\+ G.",
	"length(L, %[1]d), length(M, %[1]d), L = M.", "length(L, %d), L = M, M == L.", "length(L, %[1]d), length(M, %[1]d), L \\== M, compare(O, L, M).",
	"length(L, %d), unify_with_occurs_check(L, M).", "length(L, %d), subsumes_term(L, L).", "length(L, %d), L \\= a.",
	"length(L, %d), copy_term(L, M), L \\== M.", "length(L, %d), findall(L, true, [M]).", "length(L, %d), term_variables(L, Vs), length(Vs, K).",
	"length(L, %d), sort(L, S), length(S, K).", "length(L, %d), assertz(big(L)), big(X), length(X, K).", "length(L, %d), T =.. [f|L], functor(T, F, A).",
	"length(L, %d), write(L).", "length(L, %d), append(L, [a], M), length(M, K).", "length(L, %d), [H|T] = L, length(T, K).",
	"functor(T, f, %[1]d), functor(U, f, %[1]d), T = U.", "functor(T, f, %d), copy_term(T, U), T \\== U.", "functor(T, f, %d), \\+ atom(T).",
	"functor(T, f, %d), T =.. L, length(L, K).",
}

// writing in functional notation nests as deep as the list is long; 30000 elements are 480 KB of cells
var c05CanonGoals = []string{"length(L, 30000), write_canonical(L).", "length(L, 30000), write_term(L, [ignore_ops(true)]).", "length(L, 30000), acyclic_term(L).", "mk(30000, L), write_canonical(L).", "mk(30000, L), acyclic_term(L)."}

func c05Deep(w *h.W, emit func(c *c05Case, kind, detail string, size int)) {
	for _, g := range append(append([]string{}, c05CanonGoals...), c05LongGoals...) {
		if !w.Mine() {
			continue
		}
		goal := g
		if strings.Contains(g, "%") {
			goal = fmt.Sprintf(g, 3000000)
		}
		c := &c05Case{Kind: "goal", Goal: goal, Setup: ":- dynamic(big/1).\nmk(0, []) :- !.\nmk(N, [N|T]) :- N1 is N - 1, mk(N1, T).\n", Deep: true, Tag: "long list"}
		w.WAL(c)
		w.GuardFor(c, 6*time.Minute)
		kind, detail := c05RunDeep(c)
		w.Unguard()
		w.Nontrivial("long:" + c.Goal)
		if kind == "horizon" {
			w.Outcome("deep:still running at the resource guard")
			kind = ""
		}
		emit(c, kind, detail, len(c.Goal))
	}
	for _, n := range []int{100000, 300000} {
		for _, g := range c05DeepGoals {
			if !w.Mine() {
				continue
			}
			c := &c05Case{Kind: "goal", Goal: fmt.Sprintf(g, n), Setup: c05DeepProgram, Deep: true, Tag: "deep recursion"}
			w.WAL(c)
			w.GuardFor(c, 6*time.Minute)
			kind, detail := c05RunDeep(c)
			w.Unguard()
			w.Nontrivial("deep:" + c.Goal)
			if kind == "horizon" {
				w.Outcome("deep:still running at the resource guard")
				kind = ""
			}
			emit(c, kind, detail, len(c.Goal))
		}
	}
}

func c05RunDeep(c *c05Case) (kind, detail string) {
	defer func() {
		if r := recover(); r != nil {
			kind, detail = "an unrecovered Go panic escaped Query/Next", fmt.Sprint(r)
		}
	}()
	// The address space is limited to 8 GB while the case runs, four times the memory bound: a case that needs more
	// dies of "fatal error: out of memory" here as it would on a smaller machine, instead of passing on a large one.
	var old syscall.Rlimit
	if syscall.Getrlimit(syscall.RLIMIT_AS, &old) == nil {
		lim := old
		if lim.Cur > 8<<30 { // "unlimited" is the largest value
			lim.Cur = 8 << 30
			if syscall.Setrlimit(syscall.RLIMIT_AS, &lim) == nil {
				defer syscall.Setrlimit(syscall.RLIMIT_AS, &old)
			}
		}
	}
	p := c05NewInterp(false)
	if err := p.Exec(c.Setup); err != nil {
		return "the program does not load", err.Error()
	}
	ctx, cancel := context.WithTimeout(context.Background(), 5*time.Minute)
	defer cancel()
	sols, err := p.QueryContext(ctx, c.Goal)
	if err != nil {
		return "the generated goal does not parse", err.Error()
	}
	got := sols.Next()
	err = sols.Err()
	sols.Close()
	if errors.Is(err, context.DeadlineExceeded) {
		return "horizon", ""
	}
	if k := c05Judge(err, true); k != "" {
		return k, err.Error()
	}
	if err == nil && !got {
		return "the goal fails (it has an answer)", ""
	}
	return "", ""
}

// c05RunGoalAll is c05RunGoal but takes up to 20 answers, so that every open alternative is resumed.
func c05RunGoalAll(p *prolog.Interpreter, c *c05Case) (kind string, detail string) {
	defer func() {
		if r := recover(); r != nil {
			kind = "an unrecovered Go panic escaped Query/Next"
			detail = fmt.Sprint(r)
		}
	}()
	// asserting inside nested enumerations of the same predicate legitimately grows exponentially, so a
	// history that is still running at this horizon is cancelled and counted, not judged
	ctx, cancel := context.WithTimeout(context.Background(), 300*time.Millisecond)
	defer cancel()
	sols, err := p.QueryContext(ctx, c.Goal)
	if err != nil {
		return "the generated goal does not parse", err.Error()
	}
	for i := 0; i < 20 && sols.Next(); i++ {
	}
	err = sols.Err()
	sols.Close()
	if errors.Is(err, context.DeadlineExceeded) {
		return "horizon", ""
	}
	if k := c05Judge(err, true); k != "" {
		return k, err.Error()
	}
	return "", ""
}

func c05OnCrash(walCase json.RawMessage, stderr string, hung bool) *h.Violation {
	var c c05Case
	json.Unmarshal(walCase, &c)
	what := "the process was killed by a fatal Go runtime error"
	if strings.Contains(stderr, "stack overflow") || strings.Contains(stderr, "goroutine stack exceeds") {
		what = "fatal error: stack overflow (unbounded recursion)"
	} else if strings.Contains(stderr, "out of memory") {
		what = "fatal error: out of memory"
	} else if strings.Contains(stderr, "concurrent map") {
		what = "fatal error: concurrent map access"
	}
	if hung {
		what = "the call does not return"
	}
	head := stderr
	if len(head) > 600 {
		head = head[:600]
	}
	return &h.Violation{Sig: c05Sig(&c, what), Case: walCase, Expected: "the call returns; the process survives", Actual: what + "\n" + head, Size: len(c.Text) + len(c.Goal)}
}

func c05Replay(b []byte) (string, string, bool) {
	var c c05Case
	if err := json.Unmarshal(b, &c); err != nil {
		return "", err.Error(), false
	}
	var kind, detail string
	if c.Deep {
		if kind, detail = c05RunDeep(&c); kind == "horizon" {
			kind = ""
		}
	} else if c.Files {
		kind, detail = c05RunFiles(&c, c05FileSystem())
	} else if c.Kind == "text" {
		kind, detail = c05RunText(&c)
	} else if c.SetupQuery != "" {
		kind, detail = c05RunStreamHistory(&c)
	} else if c.Setup != "" {
		p := c05NewInterp(false)
		if err := p.Exec(c.Setup); err != nil {
			return "", err.Error(), false
		}
		if kind, detail = c05RunGoalAll(p, &c); kind == "horizon" {
			kind = ""
		}
	} else {
		if c.FileName != "" {
			// the goal opens the file by its relative name: replay in a scratch directory of its own
			if dir, err := os.MkdirTemp("", "c05replay"); err == nil {
				if wd, err := os.Getwd(); err == nil {
					defer os.Chdir(wd)
				}
				defer os.RemoveAll(dir)
				os.Chdir(dir)
			}
			os.WriteFile(c.FileName, []byte(c.FileText), 0o644)
		}
		kind, detail = c05RunGoal(c05NewInterp(c.NilIO), &c)
	}
	if kind == "" {
		return "returns; ISO error terms only", "ok", true
	}
	return "returns; ISO error terms only", kind + ": " + detail, false
}

func init() {
	h.Register(&h.Check{
		ID:            "C05",
		Rule:          "(a) ALL strings of <= L symbols over a 29-symbol token alphabet taken from the lexer's switch (atoms, variables, digits, '.', ',', '|', every bracket, '-', '+', '\\\\', quote characters, 0', 0x, :-, layout, %, /*, a non-ASCII letter, a float prefix) each as is, with '.', and with ' .\\n', handed to Exec and to Query; all byte strings of length 1 and (quick: every 7th; thorough: all) of length 2; (b) EVERY registered procedure (read from the interpreter through a verif-tagged accessor, so the matrix follows the code) except halt/0,1 x all tuples of 14 (thorough: 22) argument shapes for arity <= 3 and of 8 (arity 4, 5) / 6 shapes above (unbound, atoms incl. empty, [], integers incl. extremes, float, compound, proper/partial/improper list, string, a stream, callable and non-callable terms), first answer plus one retry then Close, on an interpreter with real streams and (quick: every 5th tuple) on the documented prolog.New(nil, nil); (c) EVERY evaluable functor of eval's dispatch tables (read through a verif-tagged accessor) x a 25-value operand grid (unbound, atom, integers incl. 63/64/-64/extremes, floats incl. -0.0, largest and smallest, compound, string, lists, nested error) for both operands, unary ones also over every unary functor nested inside (thorough: every binary too), each under is/2, three comparisons and catch/3; (d) every procedure of arity 1..4 x 7 kinds of stream argument (closed input/output, open text/binary input/output, at end, closed alias) in every argument position x all tuples of 10 other shapes (quick, arity 4: 5); (e) database histories: all conjunctions of <= 3 (thorough: 4) goals from a 20-goal menu that calls, retracts, asserts, abolishes and enumerates a dynamic predicate with three clauses while calls of it are open, with and without a final fail, up to 20 answers; (f) stream-state histories: all sequences of <= 3 (4) of 14 operations that open, close, alias and make current input/output streams (the standard streams included), each followed by each of 17 probes that use a stream; (g) 20 file names x 8 forms of include/ensure_loaded/consult (directive, initialization goal, between clauses, goal, retried goal, list notation) over an in-memory file system with self-including, mutually including and mutually loading files, a chain of 300 inclusions, a missing file, a file with a syntax error; (h) deep recursion: 12 recursion shapes (tail and non-tail counting, list construction and traversal, through call/1, catch/3, if-then-else, disjunction, mutual recursion, an error thrown at the bottom, append/3, findall/3 and ==/2 of a long list) at depths 100000 and 300000 under a 256 MB stack limit (the scaled equivalent of 1.2 million levels under Go's default limit, which is what fits into a 2 GB memory bound); (j) 17 files of malformed and well-formed text x 3 eof_actions x all sequences of <= 3 (4) of 6 stream operations (read/2, get_char/2, peek_char/2, at_end_of_stream/1, read_term/3, stream_property/2), each caught; (i) long lists and wide compounds: 22 goals that unify, compare, copy, collect the variables of, sort, assert, throw, call, write, take apart lists of 3 million elements and compounds of 3 million arguments (standing for 10 million under the default limit), and 5 goals that write a list of 30000 elements in functional notation or test it for cycles, all with the address space limited to 8 GB (four times the memory bound), first answer. Distinct = text or goal.",
		Explanation:   "state = a fresh (or regularly renewed) real interpreter in an isolated worker process; transition = one Exec/Query call; oracle: the worker process survives (a fatal runtime error is attributed to the exact input through a write-ahead record, re-running the batch in fine mode), the call returns (per-case watchdog), an error raised by a predicate is error(Formal, _) with an ISO formal error term, and no returned error is the residue of a recovered Go panic",
		Assumptions:   []string{"workers run in an empty scratch directory with GOMAXPROCS=1 and a 256 MB goroutine stack limit so that unbounded recursion dies quickly", "a Go error returned for a text that does not parse is the API's way to report a syntax error and is accepted"},
		Work:          c05Work,
		Replay:        c05Replay,
		CrashTolerant: true,
		OnCrash:       c05OnCrash,
		HangAfter:     90 * time.Second,
		QuickDeadline: 170 * time.Second, ThoroughDeadline: 30 * time.Minute,
	})
}
