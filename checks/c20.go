package checks

import (
	"bytes"
	"encoding/json"
	"fmt"
	"strings"
	"testing/fstest"
	"time"

	"github.com/ichiban/prolog"

	"verif/h"
	"verif/ref"
)

// C20 — loading defines clauses in source order; a failed load defines nothing.

// base program (loaded first on both sides): observers used by directives and initialization goals
const c20Base = `
put_list([]).
put_list([H|T]) :- put_char(H), put_list(T).
show(G) :- catch(findall(X, call(G, X), L), error(_, _), L = [n]), put_char('<'), put_list(L), put_char('|'), probe(G, [a, c, y, z]), kind(G), put_char('>').
kind(G) :- T =.. [G, _], catch((clause(T, _) -> put_char(d) ; put_char(e)), error(permission_error(_, _, _), _), put_char(s)).
probe(_, []).
probe(G, [C|Cs]) :- ( catch(call(G, C), _, fail) -> put_char(C) ; true ), probe(G, Cs).
`

type c20Item struct {
	Kind string `json:"kind"` // clause, dynamic, discontiguous, multifile, init, directive, fault
	Text string `json:"text"`
	Pred string `json:"pred,omitempty"` // name/arity the item belongs to (clauses and declarations)
	Goal string `json:"goal,omitempty"` // init / directive goal
}

var c20Items = []c20Item{
	{Kind: "clause", Text: "p(a).", Pred: "p/1"},
	{Kind: "clause", Text: "p(b).", Pred: "p/1"},
	{Kind: "clause", Text: "p(X) :- q(X).", Pred: "p/1"},
	{Kind: "clause", Text: "q(c).", Pred: "q/1"},
	{Kind: "clause", Text: "q(d).", Pred: "q/1"},
	{Kind: "clause", Text: "q(k) :- q(c).", Pred: "q/1"}, // calls its own predicate DIRECTLY: sees the clauses of other texts if q/1 is multifile
	{Kind: "clause", Text: "r(e).", Pred: "r/1"},
	{Kind: "clause", Text: "g(z) --> [].", Pred: "g/3"},
	{Kind: "dynamic", Text: ":- dynamic(p/1).", Pred: "p/1"},
	{Kind: "discontiguous", Text: ":- discontiguous(p/1).", Pred: "p/1"},
	{Kind: "multifile", Text: ":- multifile(p/1).", Pred: "p/1"},
	{Kind: "multifile", Text: ":- multifile(q/1).", Pred: "q/1"},
	{Kind: "init", Text: ":- initialization(show(p)).", Goal: "show(p)"},
	{Kind: "init", Text: ":- initialization(show(q)).", Goal: "show(q)"},
	{Kind: "directive", Text: ":- put_char('#').", Goal: "put_char('#')"},
	{Kind: "directive", Text: ":- show(r).", Goal: "show(r)"}, // r/1 is only defined by EARLIER loads (or not at all) in the texts that use this item
}

// texts that end inside a token or a bracketed comment
var c20Tails = []string{"'abc", "\"abc", "/* open", "0'", "p('x\\", "p(", "p", "/* open *", "r(1). 'x"}

var c20Faults = []c20Item{
	{Kind: "fault", Text: "p(."},
	{Kind: "fault", Text: "p(a) p(b)."},
	{Kind: "fault", Text: "q('unterminated)."},
	{Kind: "fault", Text: "3."},
	{Kind: "fault", Text: "foo :- 1."},
	{Kind: "fault", Text: ") ."},
}

type c20Load struct {
	Items   []c20Item `json:"items"`
	ViaFile bool      `json:"via_consult,omitempty"`
	// File/Mode: the text is stored as <File>.pl in the in-memory file system (replacing what was there) and loaded
	// by consult(<File>), consult('<File>.pl') or a directive :- ensure_loaded(<File>) handed to Exec
	File string `json:"file,omitempty"`
	Mode string `json:"mode,omitempty"`
	// NoFinalStop: the last item's terminating full stop is removed (a truncated text)
	NoFinalStop bool `json:"no_final_stop,omitempty"`
	// Tail: an unfinished token or comment appended after the last item, with nothing after it
	Tail string `json:"tail,omitempty"`
}

type c20Case struct {
	Loads []c20Load `json:"loads"`
}

func (l *c20Load) text() string {
	var sb strings.Builder
	for i, it := range l.Items {
		t := it.Text
		if l.NoFinalStop && i == len(l.Items)-1 {
			t = strings.TrimSuffix(strings.TrimSpace(t), ".")
		}
		sb.WriteString(t + "\n")
	}
	sb.WriteString(l.Tail)
	return sb.String()
}

// ---- reference loader: stage, then commit, then initialization ----------------------------------

type c20Pred struct {
	clauses       []string
	dynamic       bool
	multifile     bool
	discontiguous bool
}

type c20DB map[string]*c20Pred

func (d c20DB) clone() c20DB {
	n := c20DB{}
	for k, p := range d {
		cp := *p
		cp.clauses = append([]string{}, p.clauses...)
		n[k] = &cp
	}
	return n
}

// refDB builds a reference database for running observer goals
func (d c20DB) refDB() *ref.DB {
	db := ref.NewDB()
	for _, c := range rdAll(c20Base) {
		db.AddClause(c, false)
	}
	for k, p := range d {
		name := k[:strings.Index(k, "/")]
		var ar int
		fmt.Sscan(k[strings.Index(k, "/")+1:], &ar)
		db.Declare(name, ar, p.dynamic)
		for _, c := range p.clauses {
			t := rd(strings.TrimSuffix(c, "."))
			if g, ok := t.(*ref.Cmp); ok && g.F == "-->" {
				// only g(z) --> [] is used: its translation
				db.AddClause(rd("g(z, S, S)"), false)
				continue
			}
			db.AddClause(t, p.dynamic)
		}
	}
	return db
}

func (d c20DB) run(goal string) (out string, ok bool) {
	w := ref.NewWorld(d.refDB(), 5000)
	r := w.Run(rd(goal), nil, 1)
	return r.Out, r.Err == nil && r.Ball == nil && len(r.Answers) == 1
}

// load applies one text; returns (new database, output, failed, undecided)
func (d c20DB) load(l *c20Load) (c20DB, string, bool, bool) {
	staged := map[string]*c20Pred{}
	var order []string
	var inits []string
	out := ""
	lastRun := ""
	get := func(k string) *c20Pred {
		p, ok := staged[k]
		if !ok {
			p = &c20Pred{}
			staged[k] = p
			order = append(order, k)
		}
		return p
	}
	for i, it := range l.Items {
		if l.NoFinalStop && i == len(l.Items)-1 {
			return d, out, true, false // a text that ends inside a term is a syntax error
		}
		switch it.Kind {
		case "fault":
			return d, out, true, false
		case "clause":
			p := get(it.Pred)
			if lastRun != it.Pred && len(p.clauses) > 0 && !p.discontiguous {
				return d, out, true, false
			}
			p.clauses = append(p.clauses, it.Text)
			lastRun = it.Pred
		case "dynamic":
			get(it.Pred).dynamic = true
			lastRun = ""
		case "discontiguous":
			get(it.Pred).discontiguous = true
			lastRun = ""
		case "multifile":
			get(it.Pred).multifile = true
			lastRun = ""
		case "init":
			inits = append(inits, it.Goal)
			lastRun = ""
		case "directive":
			// runs at its position, against what earlier loads committed; what it sees of its own
			// text's preceding clauses is not fixed by the property: such cases are not decided
			if it.Goal == "show(r)" {
				if sp, ok := staged["r/1"]; ok && len(sp.clauses) > 0 {
					return d, out, true, true
				}
			}
			o, ok := d.run(it.Goal)
			out += o
			if !ok {
				return d, out, true, true
			}
			lastRun = ""
		}
	}
	if l.Tail != "" {
		return d, out, true, false // a text that ends inside a token or a comment is a syntax error
	}
	n := d.clone()
	for _, k := range order {
		s := staged[k]
		if ex, ok := n[k]; ok && ex.multifile && s.multifile {
			ex.clauses = append(ex.clauses, s.clauses...)
			continue
		}
		n[k] = s
	}
	for _, g := range inits {
		o, ok := n.run(g)
		out += o
		if !ok {
			return n, out, true, true
		}
	}
	return n, out, false, false
}

func c20Observe(p *prolog.Interpreter, out *bytes.Buffer) string {
	var sb strings.Builder
	for _, g := range []string{"p", "q", "r"} {
		before := out.Len()
		err := p.QuerySolution("show(" + g + ").").Err()
		sb.WriteString(g + "=" + out.String()[before:])
		if err != nil {
			sb.WriteString("!" + err.Error())
		}
		sb.WriteString(" ")
	}
	// the DCG rule
	s := p.QuerySolution("catch(phrase(g(A), []), error(E, _), A = none).")
	var d struct{ A string }
	if s.Err() == nil && s.Scan(&d) == nil {
		sb.WriteString("g=" + d.A)
	} else {
		sb.WriteString("g=fail")
	}
	return sb.String()
}

func (d c20DB) observe() string {
	var sb strings.Builder
	for _, g := range []string{"p", "q", "r"} {
		o, _ := d.run("show(" + g + ")")
		sb.WriteString(g + "=" + o + " ")
	}
	if p, ok := d["g/3"]; ok && len(p.clauses) > 0 {
		sb.WriteString("g=z")
	} else {
		sb.WriteString("g=none")
	}
	return sb.String()
}

func c20Run(c *c20Case) (exp, act, sig string, ok bool) {
	out := &bytes.Buffer{}
	p := prolog.New(strings.NewReader(""), out)
	if err := p.Exec(c20Base); err != nil {
		return "", err.Error(), "harness", false
	}
	model := c20DB{}
	for i := range c.Loads {
		l := &c.Loads[i]
		text := l.text()
		before := out.Len()
		var err error
		if l.File != "" {
			p.FS = fstest.MapFS{l.File + ".pl": &fstest.MapFile{Data: []byte(text)}}
			switch l.Mode {
			case "consult-pl":
				err = p.QuerySolution("consult('" + l.File + ".pl').").Err()
			case "ensure_loaded":
				err = p.Exec(":- ensure_loaded(" + l.File + ").\n")
			default:
				err = p.QuerySolution("consult(" + l.File + ").").Err()
			}
		} else if l.ViaFile {
			name := fmt.Sprintf("text%d", i)
			p.FS = fstest.MapFS{name + ".pl": &fstest.MapFile{Data: []byte(text)}}
			err = p.QuerySolution("consult(" + name + ").").Err()
		} else {
			err = p.Exec(text)
		}
		gotOut := out.String()[before:]
		next, wantOut, failed, undecided := model.load(l)
		where := fmt.Sprintf("load %d of %d", i+1, len(c.Loads))
		last := i == len(c.Loads)-1
		if undecided {
			return "", "", "", true
		}
		if failed {
			if err == nil {
				kind := "fault"
				if l.NoFinalStop {
					kind = "truncated text"
				} else {
					for _, it := range l.Items {
						if it.Kind == "fault" {
							kind = "fault " + it.Text
						}
					}
					if kind == "fault" && l.Tail != "" {
						kind = "the text ends inside a token or comment"
					}
					if kind == "fault" {
						kind = "clauses separated without discontiguous/1"
					}
				}
				return where + ": loading fails (" + kind + ")", "the load succeeded", "load: an invalid text loaded without error: " + kind, false
			}
			// nothing of this text is visible, everything earlier is as before
			if got, want := c20Observe(p, out), model.observe(); got != want {
				return where + " failed; database unchanged: " + want, got, "load: a failed load changed the database", false
			}
			continue
		}
		if err != nil {
			return where + ": loads successfully", "error: " + err.Error(), "load: a valid text failed to load", false
		}
		model = next
		if gotOut != wantOut {
			return where + fmt.Sprintf(": output %q", wantOut), fmt.Sprintf("%q", gotOut), "load: directive/initialization output differs (position or database seen)", false
		}
		if got, want := c20Observe(p, out), model.observe(); got != want {
			return where + ": database " + want, got, "load: clauses differ from the text's (order, replacement, multifile)", false
		}
		_ = last
	}
	return "", "", "", true
}

func c20Work(w *h.W) {
	emit := func(c *c20Case, size int) {
		w.Guard(c)
		exp, act, sig, ok := c20Run(c)
		w.Unguard()
		w.Eval(1)
		w.States(1)
		w.Transitions(len(c.Loads))
		w.Traces(1)
		var d []string
		for _, l := range c.Loads {
			d = append(d, strings.ReplaceAll(l.text(), "\n", " "))
		}
		desc := strings.Join(d, " || ")
		w.Nontrivial(desc + fmt.Sprint(c.Loads[len(c.Loads)-1].ViaFile))
		w.Sample(desc)
		o := "ok"
		if !ok {
			o = "differ"
		}
		w.Outcome(fmt.Sprintf("%s:%d", o, len(c.Loads)))
		if !ok {
			w.Violation(sig, c, exp, act, size)
		}
	}
	n := len(c20Items)
	var texts [][]c20Item
	maxLen := w.Pick(4, 4)
	for l := 0; l <= maxLen; l++ {
		seqs(l, n, func(idx []int) bool {
			t := make([]c20Item, l)
			for k, i := range idx {
				t[k] = c20Items[i]
			}
			texts = append(texts, t)
			return true
		})
		if l == 0 {
			texts = texts[:1]
		}
	}
	var small [][]c20Item // first loads
	for _, t := range texts {
		if len(t) <= w.Pick(1, 2) {
			small = append(small, t)
		}
	}
	// (0) run-length sweep: k clauses of p/1, then m clauses of q/1, then more clauses for p/1 - as a
	// second run of a discontiguous predicate in the same text, or as a later load of a multifile
	// predicate (any size-dependent behaviour of the clause buffers falls on some k, m)
	for k := 1; k <= w.Pick(17, 33); k++ {
		for m := 1; m <= 3; m++ {
			for variant := 0; variant < 2; variant++ {
				if !w.Mine() {
					continue
				}
				var ps, qs []c20Item
				for i := 0; i < k; i++ {
					ps = append(ps, c20Item{Kind: "clause", Text: fmt.Sprintf("p(%c).", 'a'+i%26), Pred: "p/1"})
				}
				for i := 0; i < m; i++ {
					qs = append(qs, c20Item{Kind: "clause", Text: fmt.Sprintf("q('%c').", 'A'+i), Pred: "q/1"})
				}
				more := []c20Item{{Kind: "clause", Text: "p(y).", Pred: "p/1"}, {Kind: "clause", Text: "p(z).", Pred: "p/1"}}
				var c *c20Case
				if variant == 0 {
					items := append([]c20Item{{Kind: "discontiguous", Text: ":- discontiguous(p/1).", Pred: "p/1"}}, ps...)
					items = append(append(items, qs...), more...)
					c = &c20Case{Loads: []c20Load{{Items: items}}}
				} else {
					first := append([]c20Item{{Kind: "multifile", Text: ":- multifile(p/1).", Pred: "p/1"}}, ps...)
					first = append(first, qs...)
					second := append([]c20Item{{Kind: "multifile", Text: ":- multifile(p/1).", Pred: "p/1"}}, more...)
					c = &c20Case{Loads: []c20Load{{Items: first}, {Items: second}}}
				}
				emit(c, k+m)
			}
		}
	}
	// (1) every text on an empty interpreter, through Exec and through consult/1
	for _, t := range texts {
		for _, via := range []bool{false, true} {
			if !w.Mine() {
				continue
			}
			if w.Expired() {
				return
			}
			emit(&c20Case{Loads: []c20Load{{Items: t, ViaFile: via}}}, len(t))
		}
	}
	// (2) fault enumeration: every fault at every position of every text of <= maxLen-1 items, loaded on
	// top of every small text; plus the truncated text
	for _, first := range small {
		for _, t := range texts {
			if len(t) >= w.Pick(3, 4) {
				continue
			}
			for pos := 0; pos <= len(t); pos++ {
				for fi := range c20Faults {
					if !w.Mine() {
						continue
					}
					if w.Expired() {
						return
					}
					ft := append(append(append([]c20Item{}, t[:pos]...), c20Faults[fi]), t[pos:]...)
					emit(&c20Case{Loads: []c20Load{{Items: first}, {Items: ft}}}, len(ft)+len(first))
				}
			}
			if len(t) > 0 {
				if !w.Mine() {
					continue
				}
				emit(&c20Case{Loads: []c20Load{{Items: first}, {Items: t, NoFinalStop: true}}}, len(t)+len(first))
			}
			for _, tail := range c20Tails {
				if !w.Mine() {
					continue
				}
				emit(&c20Case{Loads: []c20Load{{Items: first}, {Items: t, Tail: tail}}}, len(t)+len(first)+1)
			}
		}
	}
	// (2b) the same file name loaded again after a FAILED load (the repaired text): the failed load must not
	// leave the file marked as loaded, whichever way it is named
	modes := []string{"consult", "consult-pl", "ensure_loaded"}
	for _, t := range texts {
		if len(t) == 0 || len(t) > 2 {
			continue
		}
		for fi := range c20Faults {
			for _, m1 := range modes {
				for _, m2 := range modes {
					if !w.Mine() {
						continue
					}
					if w.Expired() {
						return
					}
					bad := append(append([]c20Item{}, t...), c20Faults[fi])
					emit(&c20Case{Loads: []c20Load{{Items: bad, File: "lib", Mode: m1}, {Items: t, File: "lib", Mode: m2}}}, len(t)+1)
					emit(&c20Case{Loads: []c20Load{{Items: t, Tail: "'abc", File: "lib", Mode: m1}, {Items: t, File: "lib", Mode: m2}, {Items: t, File: "other", Mode: m1}}}, len(t)+2)
				}
			}
		}
	}
	// (3b) multifile accumulation: a predicate declared multifile and given one clause by a first text, then every text of
	// <= 2 items behind the same declaration, then a third text with one more clause (clauses that call their own
	// predicate see the clauses of all texts)
	for _, pred := range []string{"p/1", "q/1"} {
		var mf c20Item
		var cls []c20Item
		for _, it := range c20Items {
			if it.Kind == "multifile" && it.Pred == pred {
				mf = it
			}
			if it.Kind == "clause" && it.Pred == pred {
				cls = append(cls, it)
			}
		}
		for _, c1 := range cls {
			for _, t := range texts {
				if len(t) == 0 || len(t) > 2 {
					continue
				}
				if !w.Mine() {
					continue
				}
				if w.Expired() {
					return
				}
				second := append([]c20Item{mf}, t...)
				// the first text declares the predicate dynamic as well: it stays so whatever the later texts declare
				dyn := c20Item{Kind: "dynamic", Text: ":- dynamic(" + pred + ").", Pred: pred}
				emit(&c20Case{Loads: []c20Load{{Items: []c20Item{mf, dyn, c1}}, {Items: second}}}, len(t)+3)
				emit(&c20Case{Loads: []c20Load{{Items: []c20Item{mf, c1}}, {Items: second}}}, len(t)+2)
				emit(&c20Case{Loads: []c20Load{{Items: []c20Item{mf, c1}}, {Items: second}, {Items: []c20Item{mf, cls[0]}}}}, len(t)+4)
			}
		}
	}
	// (3) two-load histories: every small text, then every text of <= 2..3 items (redefinition,
	// multifile accumulation, discontiguity across loads)
	for _, first := range small {
		for _, t := range texts {
			if len(t) > w.Pick(2, 3) || len(t) == 0 || len(first) == 0 {
				continue
			}
			if !w.Mine() {
				continue
			}
			if w.Expired() {
				return
			}
			emit(&c20Case{Loads: []c20Load{{Items: first}, {Items: t}}}, len(t)+len(first))
		}
	}
}

func c20Replay(b []byte) (string, string, bool) {
	var c c20Case
	if err := json.Unmarshal(b, &c); err != nil {
		return "", err.Error(), false
	}
	exp, act, _, ok := c20Run(&c)
	return exp, act, ok
}

func init() {
	h.Register(&h.Check{
		ID: "C20",
		Rule: "all program texts that are sequences of <= N items out of 16 (facts and rules of p/1, q/1, r/1 incl. a clause that calls its own predicate, a grammar rule, dynamic/discontiguous/multifile declarations, initialization goals and directives that OBSERVE the database by writing one character per answer) loaded through Exec and through consult/1 from an in-memory fs.FS; fault enumeration: into every text of <= N-1 items, at every position, each of 6 faults (unbalanced parenthesis, missing operator, unterminated quote, a number as clause, a number as body, stray close) plus the text truncated before its final full stop and the text followed by each of 9 unfinished tokens / comments (quoted atom, string, bracketed comment, 0', a continuation escape, an open argument list, a bare name), each on top of every small earlier load; reload after failure: a faulty text stored as lib.pl and loaded by consult(lib), consult('lib.pl') or :- ensure_loaded(lib), then the repaired text under the same name loaded in each of the three ways; multifile accumulation: a multifile predicate (also declared dynamic, or not) with one clause, then every text of <= 2 items behind the same declaration, then a third text; two-load histories: every small text followed by every text of <= 2..3 items. Distinct = texts.",
		Explanation: "state = the reference database after the loads so far (per predicate: clauses in order, dynamic/multifile/discontiguous flags); transition = one load on the real interpreter; the reference loader stages the text, fails as a whole on any fault or on clauses separated without discontiguous/1, commits (replace, or append when both definitions are multifile), then runs initialization goals; compared after every load: error or not, the output of directives (at their position, seeing earlier loads only) and initialization goals (after the commit), and the answers of every predicate of the signature in order, called with an unbound argument and with each of 4 constants, and whether clause/2 may look at it (dynamic or not)",
		Assumptions: []string{"what a directive sees of its OWN text's preceding clauses is not fixed by the property and is never asserted (the observing directive only looks at r/1, which those texts do not define)", "a failing or throwing directive / initialization goal is not generated"},
		Work:        c20Work,
		Replay:      c20Replay,
		QuickDeadline: 170 * time.Second, ThoroughDeadline: 30 * time.Minute,
	})
}
