//go:build verif

// This file is injected into package engine at build time (go build -overlay) by /verif/vcheck.
// It only reads unexported state; it changes nothing.
package engine

import "fmt"

// VerifProc describes one registered procedure.
type VerifProc struct {
	Name    string
	Arity   int
	Kind    string // "builtin" or "user"
	Dynamic bool
	Public  bool
	Clauses int
}

// VerifProcedures lists every procedure registered in vm.
func VerifProcedures(vm *VM) []VerifProc {
	var ps []VerifProc
	for pi, p := range vm.procedures {
		vp := VerifProc{Name: pi.name.String(), Arity: int(pi.arity), Kind: "builtin"}
		if u, ok := p.(*userDefined); ok {
			vp.Kind = "user"
			vp.Dynamic = u.dynamic
			vp.Public = u.public
			vp.Clauses = len(u.clauses)
		}
		ps = append(ps, vp)
	}
	return ps
}

// VerifInstr is one instruction of a compiled clause.
type VerifInstr struct {
	Op      string
	Operand Term   // constant operand (opGetConst/opPutConst), nil otherwise
	N       int    // integer operand: variable offset or list length; arity for functor/call
	Name    string // functor / predicate name
}

// VerifClause is one stored clause.
type VerifClause struct {
	Raw   Term
	NVars int
	Code  []VerifInstr
}

var verifOpNames = map[opcode]string{
	opEnter: "enter", opCall: "call", opExit: "exit", opGetConst: "get_const", opPutConst: "put_const",
	opGetVar: "get_var", opPutVar: "put_var", opGetFunctor: "get_functor", opPutFunctor: "put_functor",
	opPop: "pop", opCut: "cut", opGetList: "get_list", opPutList: "put_list",
	opGetPartial: "get_partial", opPutPartial: "put_partial",
}

// VerifClauses returns the stored clauses of name/arity (nil, false if it is not user defined).
func VerifClauses(vm *VM, name string, arity int) ([]VerifClause, bool) {
	p, ok := vm.procedures[procedureIndicator{name: NewAtom(name), arity: Integer(arity)}]
	if !ok {
		return nil, false
	}
	u, ok := p.(*userDefined)
	if !ok {
		return nil, false
	}
	var out []VerifClause
	for _, c := range u.clauses {
		vc := VerifClause{Raw: c.raw, NVars: len(c.vars)}
		for _, in := range c.bytecode {
			vi := VerifInstr{Op: verifOpNames[in.opcode]}
			if vi.Op == "" {
				vi.Op = fmt.Sprintf("op%d", in.opcode)
			}
			switch o := in.operand.(type) {
			case procedureIndicator:
				vi.Name, vi.N = o.name.String(), int(o.arity)
			case Integer:
				switch in.opcode {
				case opGetConst, opPutConst:
					vi.Operand = o
				default:
					vi.N = int(o)
				}
			case nil:
			default:
				vi.Operand = o
			}
			out2 := vi
			vc.Code = append(vc.Code, out2)
		}
		out = append(out, vc)
	}
	return out, true
}

// VerifEvaluable names one evaluable functor known to eval.
type VerifEvaluable struct {
	Name  string
	Arity int
}

// VerifEvaluables lists the evaluable functors (constants, unary, binary) from the dispatch tables.
func VerifEvaluables() []VerifEvaluable {
	var es []VerifEvaluable
	for a := range constants {
		es = append(es, VerifEvaluable{a.String(), 0})
	}
	for a := range unaryFunctors {
		es = append(es, VerifEvaluable{a.String(), 1})
	}
	for a := range binaryFunctors {
		es = append(es, VerifEvaluable{a.String(), 2})
	}
	return es
}
