package ref

import (
	"math"
	"sort"
	"strconv"
	"unicode/utf8"
)

type builtin func(m *Machine, args []Term, cont *frame) bool

var builtins map[string]builtin

func init() {
	builtins = map[string]builtin{
		"=/2":  func(m *Machine, a []Term, _ *frame) bool { return m.unify(a[0], a[1]) },
		"\\=/2": func(m *Machine, a []Term, _ *frame) bool {
			mark := m.W.Trail.Mark()
			ok := Unify(a[0], a[1], &m.W.Trail)
			m.W.Trail.Undo(mark)
			return !ok
		},
		"unify_with_occurs_check/2": func(m *Machine, a []Term, _ *frame) bool {
			mark := m.W.Trail.Mark()
			if UnifyOC(a[0], a[1], &m.W.Trail) {
				return true
			}
			m.W.Trail.Undo(mark)
			return false
		},
		"==/2":  func(m *Machine, a []Term, _ *frame) bool { return ordCmp(a[0], a[1]) == 0 },
		"\\==/2": func(m *Machine, a []Term, _ *frame) bool { return ordCmp(a[0], a[1]) != 0 },
		"@</2":  func(m *Machine, a []Term, _ *frame) bool { return ordCmpStrict(a[0], a[1]) < 0 },
		"@>/2":  func(m *Machine, a []Term, _ *frame) bool { return ordCmpStrict(a[0], a[1]) > 0 },
		"@=</2": func(m *Machine, a []Term, _ *frame) bool { return ordCmpStrict(a[0], a[1]) <= 0 },
		"@>=/2": func(m *Machine, a []Term, _ *frame) bool { return ordCmpStrict(a[0], a[1]) >= 0 },
		"compare/3": func(m *Machine, a []Term, _ *frame) bool {
			o := Deref(a[0])
			switch x := o.(type) {
			case *Var:
			case Atom:
				if x != "<" && x != "=" && x != ">" {
					DomErr("order", o)
				}
			default:
				TypeErr("atom", o)
			}
			c := ordCmpStrict(a[1], a[2])
			r := Atom("=")
			if c < 0 {
				r = "<"
			} else if c > 0 {
				r = ">"
			}
			return m.unify(o, r)
		},
		"var/1":     func(m *Machine, a []Term, _ *frame) bool { _, ok := Deref(a[0]).(*Var); return ok },
		"nonvar/1":  func(m *Machine, a []Term, _ *frame) bool { _, ok := Deref(a[0]).(*Var); return !ok },
		"atom/1":    func(m *Machine, a []Term, _ *frame) bool { _, ok := Deref(a[0]).(Atom); return ok },
		"integer/1": func(m *Machine, a []Term, _ *frame) bool { _, ok := Deref(a[0]).(Int); return ok },
		"float/1":   func(m *Machine, a []Term, _ *frame) bool { _, ok := Deref(a[0]).(Flt); return ok },
		"number/1": func(m *Machine, a []Term, _ *frame) bool {
			switch Deref(a[0]).(type) {
			case Int, Flt:
				return true
			}
			return false
		},
		"atomic/1": func(m *Machine, a []Term, _ *frame) bool {
			switch Deref(a[0]).(type) {
			case Int, Flt, Atom:
				return true
			}
			return false
		},
		"compound/1": func(m *Machine, a []Term, _ *frame) bool { _, ok := Deref(a[0]).(*Cmp); return ok },
		"callable/1": func(m *Machine, a []Term, _ *frame) bool {
			switch Deref(a[0]).(type) {
			case Atom, *Cmp:
				return true
			}
			return false
		},
		"is/2": func(m *Machine, a []Term, _ *frame) bool { return m.unify(a[0], evalArith(a[1])) },
		"=:=/2": func(m *Machine, a []Term, _ *frame) bool { return Compare("=:=", evalArith(a[0]), evalArith(a[1])) },
		"=\\=/2": func(m *Machine, a []Term, _ *frame) bool { return Compare("=\\=", evalArith(a[0]), evalArith(a[1])) },
		"</2":   func(m *Machine, a []Term, _ *frame) bool { return Compare("<", evalArith(a[0]), evalArith(a[1])) },
		"=</2":  func(m *Machine, a []Term, _ *frame) bool { return Compare("=<", evalArith(a[0]), evalArith(a[1])) },
		">/2":   func(m *Machine, a []Term, _ *frame) bool { return Compare(">", evalArith(a[0]), evalArith(a[1])) },
		">=/2":  func(m *Machine, a []Term, _ *frame) bool { return Compare(">=", evalArith(a[0]), evalArith(a[1])) },
		"functor/3":   biFunctor,
		"arg/3":       biArg,
		"=../2":       biUniv,
		"copy_term/2": func(m *Machine, a []Term, _ *frame) bool { return m.unify(Copy(a[0], map[*Var]*Var{}), a[1]) },
		"atom_length/2": func(m *Machine, a []Term, _ *frame) bool {
			x := Deref(a[0])
			switch x := x.(type) {
			case *Var:
				InstErr()
			case Atom:
				n := Deref(a[1])
				switch k := n.(type) {
				case *Var:
				case Int:
					if k < 0 {
						DomErr("not_less_than_zero", n)
					}
				default:
					TypeErr("integer", n)
				}
				return m.unify(n, Int(utf8.RuneCountInString(string(x))))
			default:
				Unsupported("atom_length of a non-atom")
			}
			return false
		},
		"member/2": biMember,
		"append/3": biAppend,
		"select/3": biSelect,
		"between/3": biBetween,
		"length/2":  biLength,
		"put_char/1": func(m *Machine, a []Term, _ *frame) bool {
			switch x := Deref(a[0]).(type) {
			case *Var:
				InstErr()
			case Atom:
				if utf8.RuneCountInString(string(x)) != 1 {
					TypeErr("character", x)
				}
				m.W.Out.WriteString(string(x))
				return true
			default:
				TypeErr("character", x)
			}
			return false
		},
		"nl/0": func(m *Machine, a []Term, _ *frame) bool { m.W.Out.WriteByte('\n'); return true },
		"write/1": func(m *Machine, a []Term, _ *frame) bool {
			switch x := Deref(a[0]).(type) {
			case Atom:
				m.W.Out.WriteString(string(x))
			case Int:
				m.W.Out.WriteString(strconv.FormatInt(int64(x), 10))
			default:
				Unsupported("write/1 of a non-atomic term")
			}
			return true
		},
		"asserta/1": func(m *Machine, a []Term, _ *frame) bool { return m.assert(a[0], true) },
		"assertz/1": func(m *Machine, a []Term, _ *frame) bool { return m.assert(a[0], false) },
		"retract/1": func(m *Machine, a []Term, cont *frame) bool {
			t := Deref(a[0])
			if _, ok := t.(*Var); ok {
				InstErr()
			}
			head, body := t, Term(Atom("true"))
			if c, ok := t.(*Cmp); ok && c.F == ":-" && len(c.Args) == 2 {
				head, body = c.Args[0], c.Args[1]
			}
			return m.clauseOrRetract(head, body, true, cont)
		},
		"retractall/1": func(m *Machine, a []Term, cont *frame) bool {
			head := Deref(a[0])
			switch head.(type) {
			case *Var:
				InstErr()
			case Atom, *Cmp:
			default:
				TypeErr("callable", head)
			}
			name, arity, _ := Indicator(head)
			if ControlOrBuiltin(name, arity) {
				PermErr("modify", "static_procedure", PI(name, arity))
			}
			p := m.W.DB.pred(name, arity, false)
			if p == nil {
				// ISO: retractall on an unknown procedure creates it as dynamic.
				if m.W.StrictDB {
					Unsupported("retractall of a procedure that does not exist")
				}
				m.W.DB.pred(name, arity, true)
				return true
			}
			if !p.Dynamic {
				PermErr("modify", "static_procedure", PI(name, arity))
			}
			var keep []*Clause
			for _, cl := range p.Clauses {
				mark := m.W.Trail.Mark()
				if Unify(Copy(cl.Head, map[*Var]*Var{}), head, &m.W.Trail) {
					cl.Erased = true
				} else {
					keep = append(keep, cl)
				}
				m.W.Trail.Undo(mark)
			}
			p.Clauses = keep
			return true
		},
		"subsumes_term/2": func(m *Machine, a []Term, _ *frame) bool {
			// ISO 8.2.4: true iff Specific is an instance of General, without binding anything
			before := Vars(a[1], nil)
			mark := m.W.Trail.Mark()
			ok := UnifyOC(a[0], a[1], &m.W.Trail)
			if ok {
				// the variables of Specific must be untouched (still distinct unbound variables)
				seen := map[*Var]bool{}
				for _, v := range before {
					d, isVar := Deref(v).(*Var)
					if !isVar || seen[d] {
						ok = false
						break
					}
					seen[d] = true
				}
			}
			m.W.Trail.Undo(mark)
			return ok
		},
		"term_variables/2": func(m *Machine, a []Term, _ *frame) bool {
			vs := Vars(a[0], nil)
			ts := make([]Term, len(vs))
			for i, v := range vs {
				ts[i] = v
			}
			return m.unify(a[1], List(ts...))
		},
		"atom_chars/2": func(m *Machine, a []Term, _ *frame) bool { return atomText(m, a, false) },
		"atom_codes/2": func(m *Machine, a []Term, _ *frame) bool { return atomText(m, a, true) },
		"sort/2": func(m *Machine, a []Term, _ *frame) bool {
			elems, tail := ListSlice(a[0])
			if _, ok := Deref(tail).(*Var); ok {
				InstErr()
			}
			if Deref(tail) != Term(Nil) {
				TypeErr("list", a[0])
			}
			checkPartialList(a[1])
			out, hinges := SortUnique(elems)
			if hinges {
				Unsupported("sort/2 result depends on the order of distinct unbound variables")
			}
			return m.unify(a[1], List(out...))
		},
		"keysort/2": func(m *Machine, a []Term, _ *frame) bool {
			elems, tail := ListSlice(a[0])
			if _, ok := Deref(tail).(*Var); ok {
				InstErr()
			}
			if Deref(tail) != Term(Nil) {
				TypeErr("list", a[0])
			}
			checkPartialList(a[1])
			type kv struct{ k, p Term }
			ps := make([]kv, len(elems))
			for i, e := range elems {
				switch c := Deref(e).(type) {
				case *Var:
					InstErr()
				case *Cmp:
					if c.F != "-" || len(c.Args) != 2 {
						TypeErr("pair", e)
					}
					ps[i] = kv{c.Args[0], e}
				default:
					TypeErr("pair", e)
				}
			}
			hinges := false
			sort.SliceStable(ps, func(i, j int) bool {
				c, h := Order(ps[i].k, ps[j].k)
				if h {
					hinges = true
				}
				return c < 0
			})
			if hinges {
				Unsupported("keysort/2 result depends on the order of distinct unbound variables")
			}
			out := make([]Term, len(ps))
			for i, p := range ps {
				out[i] = p.p
			}
			return m.unify(a[1], List(out...))
		},
		"./2": func(m *Machine, a []Term, _ *frame) bool {
			Unsupported("a list as a goal (consult shorthand)")
			return false
		},
		"abolish/1": func(m *Machine, a []Term, _ *frame) bool { return m.abolish(a[0]) },
		"clause/2":  func(m *Machine, a []Term, cont *frame) bool { return m.clauseOrRetract(a[0], a[1], false, cont) },
	}
}

func ordCmp(a, b Term) int {
	c, h := Order(a, b)
	if h {
		// identity is decidable even when the order is not: two terms that hinge are not identical
		return 2
	}
	return c
}

func ordCmpStrict(a, b Term) int {
	c, h := Order(a, b)
	if h {
		Unsupported("standard order of two distinct unbound variables")
	}
	return c
}

func evalArith(t Term) Term {
	t = Deref(t)
	switch x := t.(type) {
	case *Var:
		InstErr()
	case Int, Flt:
		return x
	case Atom:
		TypeErr("evaluable", PI(string(x), 0))
	case *Cmp:
		var r ArithResult
		switch len(x.Args) {
		case 1:
			if Unary(x.F, Int(1)).Unspecified {
				TypeErr("evaluable", PI(x.F, 1))
			}
			r = Unary(x.F, evalArith(x.Args[0]))
		case 2:
			if Binary(x.F, Int(1), Int(1)).Unspecified {
				TypeErr("evaluable", PI(x.F, 2))
			}
			a := evalArith(x.Args[0])
			b := evalArith(x.Args[1])
			r = Binary(x.F, a, b)
		default:
			TypeErr("evaluable", PI(x.F, len(x.Args)))
		}
		if r.Unspecified || len(r.Vals) != 1 || len(r.Errs) > 0 && len(r.Vals) > 0 {
			if len(r.Vals) == 0 && len(r.Errs) == 1 {
				switch r.Errs[0] {
				case "type_error(integer)", "type_error(float)", "anyerror":
					Unsupported("arithmetic type error in generated program")
				default:
					EvalErr(r.Errs[0])
				}
			}
			Unsupported("arithmetic with an open result in generated program")
		}
		if f, ok := r.Vals[0].(Flt); ok && (math.IsInf(float64(f), 0) || math.IsNaN(float64(f))) {
			Unsupported("non-finite float")
		}
		return r.Vals[0]
	}
	return nil
}

func biFunctor(m *Machine, a []Term, _ *frame) bool {
	t := Deref(a[0])
	switch x := t.(type) {
	case *Var:
		n, ar := Deref(a[1]), Deref(a[2])
		if _, ok := n.(*Var); ok {
			InstErr()
		}
		if _, ok := ar.(*Var); ok {
			InstErr()
		}
		k, ok := ar.(Int)
		if !ok {
			TypeErr("integer", ar)
		}
		if k < 0 {
			DomErr("not_less_than_zero", ar)
		}
		if k == 0 {
			if _, isC := n.(*Cmp); isC {
				TypeErr("atomic", n)
			}
			return m.unify(t, n)
		}
		if _, isC := n.(*Cmp); isC {
			TypeErr("atomic", n)
		}
		na, ok := n.(Atom)
		if !ok {
			TypeErr("atom", n)
		}
		if k > 1000000 {
			Unsupported("huge functor arity")
		}
		args := make([]Term, k)
		for i := range args {
			args[i] = NewVar("")
		}
		return m.unify(t, &Cmp{F: string(na), Args: args})
	case *Cmp:
		return m.unify(a[1], Atom(x.F)) && m.unify(a[2], Int(len(x.Args)))
	default:
		return m.unify(a[1], x) && m.unify(a[2], Int(0))
	}
}

func biArg(m *Machine, a []Term, cont *frame) bool {
	n, t := Deref(a[0]), Deref(a[1])
	c, ok := t.(*Cmp)
	if !ok {
		if _, isV := t.(*Var); isV {
			InstErr()
		}
		TypeErr("compound", t)
	}
	switch k := n.(type) {
	case *Var:
		// enumerates (as most systems and this implementation do)
		var alts []func() bool
		for i := range c.Args {
			i := i
			alts = append(alts, func() bool {
				return Unify(n, Int(i+1), &m.W.Trail) && Unify(a[2], c.Args[i], &m.W.Trail)
			})
		}
		return m.tryAll(cont, alts)
	case Int:
		if k < 0 {
			DomErr("not_less_than_zero", n)
		}
		if k == 0 || int(k) > len(c.Args) {
			return false
		}
		return m.unify(a[2], c.Args[k-1])
	default:
		TypeErr("integer", n)
	}
	return false
}

func biUniv(m *Machine, a []Term, _ *frame) bool {
	t := Deref(a[0])
	switch x := t.(type) {
	case *Var:
		elems, tail := ListSlice(a[1])
		if _, ok := Deref(tail).(*Var); ok {
			InstErr()
		}
		if Deref(tail) != Term(Nil) {
			TypeErr("list", a[1])
		}
		if len(elems) == 0 {
			DomErr("non_empty_list", Nil)
		}
		h := Deref(elems[0])
		if _, ok := h.(*Var); ok {
			InstErr()
		}
		if len(elems) == 1 {
			if _, isC := h.(*Cmp); isC {
				TypeErr("atomic", h)
			}
			return m.unify(t, h)
		}
		ha, ok := h.(Atom)
		if !ok {
			if _, isC := h.(*Cmp); isC {
				TypeErr("atomic", h)
			}
			TypeErr("atom", h)
		}
		return m.unify(t, &Cmp{F: string(ha), Args: append([]Term{}, elems[1:]...)})
	case *Cmp:
		return m.unify(a[1], List(append([]Term{Atom(x.F)}, x.Args...)...))
	default:
		return m.unify(a[1], List(x))
	}
}

// member/2, append/3, select/3 are executed by their textbook clauses so that answer order,
// termination and behaviour on partial lists are those of the definitions.
func clauseProgram(src ...Term) []*Clause {
	var cs []*Clause
	for _, t := range src {
		h, b := SplitClause(t)
		cs = append(cs, &Clause{Head: h, Body: b})
	}
	return cs
}

func v(n string) *Var { return &Var{Name: n, ID: -1} }

var memberClauses, appendClauses, selectClauses []*Clause

func init() {
	{
		X, T := v("X"), v("T")
		X2, T2, U := v("X"), v("T"), v("_")
		memberClauses = clauseProgram(
			C("member", X, C(".", X, T)),
			C(":-", C("member", X2, C(".", U, T2)), C("member", X2, T2)))
	}
	{
		L := v("L")
		H, T, L2, R := v("H"), v("T"), v("L"), v("R")
		appendClauses = clauseProgram(
			C("append", Nil, L, L),
			C(":-", C("append", C(".", H, T), L2, C(".", H, R)), C("append", T, L2, R)))
	}
	{
		E, Xs := v("E"), v("Xs")
		E2, X, Xs2, Ys := v("E"), v("X"), v("Xs"), v("Ys")
		selectClauses = clauseProgram(
			C("select", E, C(".", E, Xs), Xs),
			C(":-", C("select", E2, C(".", X, Xs2), C(".", X, Ys)), C("select", E2, Xs2, Ys)))
	}
}

func (m *Machine) callClauses(name string, args []Term, cs []*Clause, cont *frame) bool {
	c := &choice{kind: cpClauses, goal: &Cmp{F: name, Args: args}, clauses: cs, goals: cont}
	m.push(c)
	return m.tryClauses(c)
}

func biMember(m *Machine, a []Term, cont *frame) bool { return m.callClauses("member", a, memberClauses, cont) }
func biSelect(m *Machine, a []Term, cont *frame) bool { return m.callClauses("select", a, selectClauses, cont) }

func biAppend(m *Machine, a []Term, cont *frame) bool {
	return m.callClauses("append", a, appendClauses, cont)
}

func biBetween(m *Machine, a []Term, cont *frame) bool {
	lo, hi, x := Deref(a[0]), Deref(a[1]), Deref(a[2])
	if _, ok := lo.(*Var); ok {
		InstErr()
	}
	if _, ok := hi.(*Var); ok {
		InstErr()
	}
	l, ok := lo.(Int)
	if !ok {
		TypeErr("integer", lo)
	}
	var h Int
	switch y := hi.(type) {
	case Int:
		h = y
	case Atom:
		if y != "inf" && y != "infinite" {
			TypeErr("integer", hi)
		}
		h = math.MaxInt64
	default:
		TypeErr("integer", hi)
	}
	switch k := x.(type) {
	case *Var:
	case Int:
		return k >= l && k <= h
	default:
		TypeErr("integer", x)
	}
	cur := l
	doneAll := false
	return m.pushGen(cont, func() bool {
		if doneAll || cur > h {
			return false
		}
		val := cur
		if cur == math.MaxInt64 {
			doneAll = true
		} else {
			cur++
		}
		return Unify(x, val, &m.W.Trail)
	})
}

func biLength(m *Machine, a []Term, cont *frame) bool {
	elems, tail := ListSlice(a[0])
	n := Deref(a[1])
	switch k := n.(type) {
	case *Var:
	case Int:
		if k < 0 {
			DomErr("not_less_than_zero", n)
		}
	default:
		TypeErr("integer", n)
	}
	switch t := Deref(tail).(type) {
	case Atom:
		if t != Nil {
			return false
		}
		return m.unify(n, Int(len(elems)))
	case *Var:
		if k, ok := n.(Int); ok {
			extra := int(k) - len(elems)
			if extra < 0 {
				return false
			}
			if extra > 100000 {
				Unsupported("huge list")
			}
			if Occurs(t, n) {
				return false
			}
			vs := make([]Term, extra)
			for i := range vs {
				vs[i] = NewVar("")
			}
			return m.unify(t, List(vs...))
		}
		if nv, ok := n.(*Var); ok && nv == t {
			ReprErr("resource_error") // never generated
		}
		extra := 0
		return m.pushGen(cont, func() bool {
			vs := make([]Term, extra)
			for i := range vs {
				vs[i] = NewVar("")
			}
			ok := Unify(t, List(vs...), &m.W.Trail) && Unify(n, Int(len(elems)+extra), &m.W.Trail)
			extra++
			return ok
		})
	default:
		return false
	}
}

// atomText implements atom_chars/2 and atom_codes/2 for the modes the generators use: a bound atom
// (or number - unsupported) to list, or a ground list to atom.
func atomText(m *Machine, a []Term, codes bool) bool {
	switch x := Deref(a[0]).(type) {
	case Atom:
		var es []Term
		for _, r := range string(x) {
			if codes {
				es = append(es, Int(r))
			} else {
				es = append(es, Atom(string(r)))
			}
		}
		return m.unify(a[1], List(es...))
	case *Var:
		elems, tail := ListSlice(a[1])
		if Deref(tail) != Term(Nil) {
			InstErr()
		}
		var sb []rune
		for _, e := range elems {
			switch c := Deref(e).(type) {
			case Atom:
				if codes || utf8.RuneCountInString(string(c)) != 1 {
					Unsupported("atom_chars/atom_codes with an ill-typed list")
				}
				sb = append(sb, []rune(string(c))[0])
			case Int:
				if !codes {
					Unsupported("atom_chars/atom_codes with an ill-typed list")
				}
				sb = append(sb, rune(c))
			default:
				Unsupported("atom_chars/atom_codes with a partial or ill-typed list")
			}
		}
		return m.unify(x, Atom(string(sb)))
	}
	Unsupported("atom_chars/atom_codes of a non-atom")
	return false
}
