package ref

import (
	"math"
	"unicode/utf8"
)

// Brute-force definitions of the relational built-ins: each function returns the COMPLETE finite
// relation over the given domain as a list of tuples. Text is measured in characters (runes).

// Strings returns all strings of length <= n over alphabet.
func Strings(alphabet []string, n int) []string {
	out := []string{""}
	prev := []string{""}
	for i := 0; i < n; i++ {
		var next []string
		for _, p := range prev {
			for _, a := range alphabet {
				next = append(next, p+a)
			}
		}
		out = append(out, next...)
		prev = next
	}
	return out
}

func runes(s string) []string {
	var out []string
	for _, r := range s {
		out = append(out, string(r))
	}
	return out
}

func join(rs []string) string {
	s := ""
	for _, r := range rs {
		s += r
	}
	return s
}

// RelAtomLength: atom_length(A, N).
func RelAtomLength(atoms []string) [][]Term {
	var out [][]Term
	for _, a := range atoms {
		out = append(out, []Term{Atom(a), Int(utf8.RuneCountInString(a))})
	}
	return out
}

// RelAtomConcat: atom_concat(A, B, C) for every C in atoms and every split.
func RelAtomConcat(atoms []string) [][]Term {
	var out [][]Term
	for _, c := range atoms {
		rs := runes(c)
		for i := 0; i <= len(rs); i++ {
			out = append(out, []Term{Atom(join(rs[:i])), Atom(join(rs[i:])), Atom(c)})
		}
	}
	return out
}

// RelSubAtom: sub_atom(Atom, B, L, A, Sub).
func RelSubAtom(atoms []string) [][]Term {
	var out [][]Term
	for _, a := range atoms {
		rs := runes(a)
		n := len(rs)
		for b := 0; b <= n; b++ {
			for l := 0; b+l <= n; l++ {
				out = append(out, []Term{Atom(a), Int(b), Int(l), Int(n - b - l), Atom(join(rs[b : b+l]))})
			}
		}
	}
	return out
}

// RelAtomChars / RelAtomCodes.
func RelAtomChars(atoms []string) [][]Term {
	var out [][]Term
	for _, a := range atoms {
		var es []Term
		for _, r := range runes(a) {
			es = append(es, Atom(r))
		}
		out = append(out, []Term{Atom(a), List(es...)})
	}
	return out
}

func RelAtomCodes(atoms []string) [][]Term {
	var out [][]Term
	for _, a := range atoms {
		var es []Term
		for _, r := range a {
			es = append(es, Int(r))
		}
		out = append(out, []Term{Atom(a), List(es...)})
	}
	return out
}

func RelCharCode(chars []string) [][]Term {
	var out [][]Term
	for _, c := range chars {
		r, _ := utf8.DecodeRuneInString(c)
		out = append(out, []Term{Atom(c), Int(r)})
	}
	return out
}

// RelFunctor: functor(T, N, A) over the given terms.
func RelFunctor(terms []Term) [][]Term {
	var out [][]Term
	for _, t := range terms {
		switch x := t.(type) {
		case *Cmp:
			out = append(out, []Term{t, Atom(x.F), Int(len(x.Args))})
		default:
			out = append(out, []Term{t, t, Int(0)})
		}
	}
	return out
}

// RelArg: arg(N, T, A).
func RelArg(terms []Term) [][]Term {
	var out [][]Term
	for _, t := range terms {
		if c, ok := t.(*Cmp); ok {
			for i, a := range c.Args {
				out = append(out, []Term{Int(i + 1), t, a})
			}
		}
	}
	return out
}

// RelUniv: T =.. L.
func RelUniv(terms []Term) [][]Term {
	var out [][]Term
	for _, t := range terms {
		switch x := t.(type) {
		case *Cmp:
			out = append(out, []Term{t, List(append([]Term{Atom(x.F)}, x.Args...)...)})
		default:
			out = append(out, []Term{t, List(t)})
		}
	}
	return out
}

// Lists returns all proper lists of length <= n over elems.
func Lists(elems []Term, n int) [][]Term {
	out := [][]Term{{}}
	prev := [][]Term{{}}
	for i := 0; i < n; i++ {
		var next [][]Term
		for _, p := range prev {
			for _, e := range elems {
				next = append(next, append(append([]Term{}, p...), e))
			}
		}
		out = append(out, next...)
		prev = next
	}
	return out
}

// RelAppend: append(X, Y, Z) for every Z in lists and every split.
func RelAppend(lists [][]Term) [][]Term {
	var out [][]Term
	for _, z := range lists {
		for i := 0; i <= len(z); i++ {
			out = append(out, []Term{List(z[:i]...), List(z[i:]...), List(z...)})
		}
	}
	return out
}

func RelLength(lists [][]Term) [][]Term {
	var out [][]Term
	for _, l := range lists {
		out = append(out, []Term{List(l...), Int(len(l))})
	}
	return out
}

// RelBetween: between(L, H, X) for all L, H in ints.
func RelBetween(ints []int64, maxSpan int64) [][]Term {
	var out [][]Term
	for _, l := range ints {
		for _, h := range ints {
			if h < l || uint64(h-l) > uint64(maxSpan) {
				continue
			}
			for x := l; ; x++ {
				out = append(out, []Term{Int(l), Int(h), Int(x)})
				if x == h {
					break
				}
			}
		}
	}
	return out
}

// RelNth: nth0/nth1(N, L, E).
func RelNth(lists [][]Term, base int) [][]Term {
	var out [][]Term
	for _, l := range lists {
		for i, e := range l {
			out = append(out, []Term{Int(i + base), List(l...), e})
		}
	}
	return out
}

func RelMember(lists [][]Term) [][]Term {
	var out [][]Term
	for _, l := range lists {
		for _, e := range l {
			out = append(out, []Term{e, List(l...)})
		}
	}
	return out
}

// RelSelect: select(E, L, R).
func RelSelect(lists [][]Term) [][]Term {
	var out [][]Term
	for _, l := range lists {
		for i, e := range l {
			r := append(append([]Term{}, l[:i]...), l[i+1:]...)
			out = append(out, []Term{e, List(l...), List(r...)})
		}
	}
	return out
}

func RelSucc(ints []int64) [][]Term {
	var out [][]Term
	for _, i := range ints {
		if i >= 0 && i < math.MaxInt64 {
			out = append(out, []Term{Int(i), Int(i + 1)})
		}
	}
	return out
}
