package ref

import (
	"encoding/json"
	"fmt"
	"math"
	"strconv"
)

// JTerm is the JSON encoding of a term used in replay files.
type JTerm struct {
	A    *string  `json:"a,omitempty"`
	I    *string  `json:"i,omitempty"`
	F    *string  `json:"f,omitempty"` // hex bit pattern
	V    *string  `json:"v,omitempty"`
	C    *string  `json:"c,omitempty"`
	Args []*JTerm `json:"args,omitempty"`
	Txt  string   `json:"txt,omitempty"` // readable form, informational
}

// Enc encodes t. Variables are identified by name (unnamed ones get _V<ID>).
func Enc(t Term) *JTerm { return enc(t, true) }

func enc(t Term, top bool) *JTerm {
	t = Deref(t)
	j := &JTerm{}
	if top {
		j.Txt = Text(t)
	}
	switch t := t.(type) {
	case Atom:
		s := string(t)
		j.A = &s
	case Int:
		s := strconv.FormatInt(int64(t), 10)
		j.I = &s
	case Flt:
		s := fmt.Sprintf("%016x", math.Float64bits(float64(t)))
		j.F = &s
	case *Var:
		s := t.Name
		if s == "" {
			s = fmt.Sprintf("_V%d", t.ID)
		}
		j.V = &s
	case *Cmp:
		s := t.F
		j.C = &s
		for _, a := range t.Args {
			j.Args = append(j.Args, enc(a, false))
		}
	}
	return j
}

// Dec decodes j; vars maps names to variables so that sharing is restored.
func Dec(j *JTerm, vars map[string]*Var) Term {
	switch {
	case j == nil:
		return Atom("$nil")
	case j.A != nil:
		return Atom(*j.A)
	case j.I != nil:
		v, _ := strconv.ParseInt(*j.I, 10, 64)
		return Int(v)
	case j.F != nil:
		b, _ := strconv.ParseUint(*j.F, 16, 64)
		return Flt(math.Float64frombits(b))
	case j.V != nil:
		if v, ok := vars[*j.V]; ok {
			return v
		}
		v := NewVar(*j.V)
		vars[*j.V] = v
		return v
	case j.C != nil:
		args := make([]Term, len(j.Args))
		for i, a := range j.Args {
			args[i] = Dec(a, vars)
		}
		return &Cmp{F: *j.C, Args: args}
	}
	return Atom("$bad")
}

func MustJSON(v interface{}) string {
	b, err := json.Marshal(v)
	if err != nil {
		panic(err)
	}
	return string(b)
}
