package ref

import (
	"fmt"
	"sort"
)

// Reference operator table (ISO 13211-1 8.14.3, 6.3.4.3): at most one definition per name and
// class; priority 0 removes; never an infix and a postfix operator of the same name; ','
// unmodifiable; '|' only infix with priority 0 or >= 1001; '[]' and '{}' never operators.
// A failing op/3 leaves the table unchanged.

type OpDef struct {
	Pri  int
	Spec string
}

// OpTable maps name -> class ("prefix", "infix", "postfix") -> definition.
type OpTable map[string]map[string]OpDef

func OpClass(spec string) string {
	switch spec {
	case "fx", "fy":
		return "prefix"
	case "xfx", "xfy", "yfx":
		return "infix"
	case "xf", "yf":
		return "postfix"
	}
	return ""
}

func (t OpTable) Clone() OpTable {
	n := OpTable{}
	for k, v := range t {
		m := map[string]OpDef{}
		for c, d := range v {
			m[c] = d
		}
		n[k] = m
	}
	return n
}

// Key is a canonical rendering of the table.
func (t OpTable) Key() string {
	es := t.Entries()
	return fmt.Sprint(es)
}

// Entries lists op(P, Spec, Name) triples, sorted.
func (t OpTable) Entries() []string {
	var es []string
	for n, m := range t {
		for _, d := range m {
			es = append(es, fmt.Sprintf("op(%d,%s,%s)", d.Pri, d.Spec, QuoteAtomAlways(n)))
		}
	}
	sort.Strings(es)
	return es
}

// OpResult of applying op/3: Err means an error must be raised (and the table is unchanged);
// EitherOK means ISO is silent: success or error are both admissible, the table result is the same.
type OpResult struct {
	Err      bool
	EitherOK bool
	Why      string
}

// Apply performs op(P, Spec, Names) on t (in place on success).
func (t OpTable) Apply(pri, spec, names Term) OpResult {
	pri, spec, names = Deref(pri), Deref(spec), Deref(names)
	if _, ok := pri.(*Var); ok {
		return OpResult{Err: true, Why: "priority unbound"}
	}
	if _, ok := spec.(*Var); ok {
		return OpResult{Err: true, Why: "specifier unbound"}
	}
	p, ok := pri.(Int)
	if !ok {
		return OpResult{Err: true, Why: "priority not an integer"}
	}
	if p < 0 || p > 1200 {
		return OpResult{Err: true, Why: "priority out of range"}
	}
	sa, ok := spec.(Atom)
	if !ok {
		return OpResult{Err: true, Why: "specifier not an atom"}
	}
	class := OpClass(string(sa))
	if class == "" {
		return OpResult{Err: true, Why: "not a specifier"}
	}
	var ns []string
	switch x := names.(type) {
	case *Var:
		return OpResult{Err: true, Why: "names unbound"}
	case Atom:
		ns = []string{string(x)}
		if x == Nil {
			// op(P, T, []) : '[]' as a name - ISO: permission error (the empty list of names is the
			// same term); implementations treat it either way, both leave the table unchanged
			return OpResult{Err: true, EitherOK: true, Why: "[] as name / empty name list"}
		}
	default:
		elems, tail := ListSlice(names)
		if len(elems) == 0 {
			return OpResult{Err: true, Why: "names neither atom nor list"}
		}
		if Deref(tail) != Term(Nil) {
			return OpResult{Err: true, Why: "names is a partial or improper list"}
		}
		for _, e := range elems {
			a, ok := Deref(e).(Atom)
			if !ok {
				return OpResult{Err: true, Why: "a name is not an atom"}
			}
			ns = append(ns, string(a))
		}
	}
	silent := false
	for _, n := range ns {
		switch n {
		case ",":
			return OpResult{Err: true, Why: "',' cannot be modified"}
		case "[]", "{}":
			return OpResult{Err: true, Why: n + " cannot be an operator"}
		case "|":
			if class != "infix" || (p > 0 && p < 1001) {
				return OpResult{Err: true, Why: "'|' only infix with priority 0 or > 1000"}
			}
		}
		other := ""
		if class == "infix" {
			other = "postfix"
		} else if class == "postfix" {
			other = "infix"
		}
		if other != "" {
			if _, clash := t[n][other]; clash {
				if p == 0 {
					silent = true // removing a non-existent operator of the conflicting class: ISO silent
				} else {
					return OpResult{Err: true, Why: "infix and postfix operator of the same name"}
				}
			}
		}
	}
	if silent {
		// apply what would be applied on success: removing entries of this class (there are none for
		// the clashing name); since success may also be refused, only claim equality when both agree
		c := t.Clone()
		for _, n := range ns {
			delete(c[n], class)
		}
		if c.Key() != t.Key() {
			// success would change the table, an error would not: cannot be reconciled - treat as
			// an admissible error only if nothing else changes
			return OpResult{Err: true, EitherOK: false, Why: "priority 0 on a list that also removes other operators while one member conflicts (unspecified)"}
		}
		return OpResult{Err: true, EitherOK: true, Why: "priority 0 for a class that conflicts (ISO silent)"}
	}
	for _, n := range ns {
		if p == 0 {
			delete(t[n], class)
			if len(t[n]) == 0 {
				delete(t, n)
			}
			continue
		}
		if t[n] == nil {
			t[n] = map[string]OpDef{}
		}
		t[n][class] = OpDef{Pri: int(p), Spec: string(sa)}
	}
	return OpResult{}
}
