package ref

import "math"

// Trail records destructive changes so that they can be undone on backtracking.
type Trail struct {
	entries []trailEntry
	// CheckSTO: every unification is first tested with the conservative STO detector; a positive
	// test sets STO and fails the unification (the caller then abandons the case: ISO leaves
	// unification of terms that are subject to occurs check undefined).
	CheckSTO bool
	STO      bool
}

type trailEntry struct {
	v    *Var
	flag *bool // a trailed boolean (catch frames): restored to old
	old  bool
}

func (tr *Trail) Mark() int { return len(tr.entries) }

func (tr *Trail) Bind(v *Var, t Term) {
	v.Ref = t
	tr.entries = append(tr.entries, trailEntry{v: v})
}

func (tr *Trail) SetFlag(f *bool, val bool) {
	tr.entries = append(tr.entries, trailEntry{flag: f, old: *f})
	*f = val
}

func (tr *Trail) Undo(mark int) {
	for i := len(tr.entries) - 1; i >= mark; i-- {
		e := tr.entries[i]
		if e.v != nil {
			e.v.Ref = nil
		} else {
			*e.flag = e.old
		}
	}
	tr.entries = tr.entries[:mark]
}

// AtomicEq compares two atomic terms as unification does: same type, same value
// (floats: 0.0 and -0.0 are left to the caller's policy through floatEq).
func atomicEq(a, b Term) bool {
	switch a := a.(type) {
	case Atom:
		b, ok := b.(Atom)
		return ok && a == b
	case Int:
		b, ok := b.(Int)
		return ok && a == b
	case Flt:
		b, ok := b.(Flt)
		return ok && (a == b || (math.IsNaN(float64(a)) && math.IsNaN(float64(b))))
	}
	return false
}

// Unify is Robinson unification without occurs check (bindings recorded on tr).
// On failure the caller must undo to its mark.
func Unify(a, b Term, tr *Trail) bool {
	if tr.CheckSTO && STO(a, b) {
		tr.STO = true
		return false
	}
	return unify(a, b, tr, false)
}

// UnifyOC is unification with occurs check.
func UnifyOC(a, b Term, tr *Trail) bool {
	return unify(a, b, tr, true)
}

func unify(a, b Term, tr *Trail, oc bool) bool {
	a, b = Deref(a), Deref(b)
	if va, ok := a.(*Var); ok {
		if vb, ok := b.(*Var); ok && va == vb {
			return true
		}
		if oc && Occurs(va, b) {
			return false
		}
		tr.Bind(va, b)
		return true
	}
	if vb, ok := b.(*Var); ok {
		if oc && Occurs(vb, a) {
			return false
		}
		tr.Bind(vb, a)
		return true
	}
	ca, okA := a.(*Cmp)
	cb, okB := b.(*Cmp)
	if okA != okB {
		return false
	}
	if !okA {
		return atomicEq(a, b)
	}
	if ca.F != cb.F || len(ca.Args) != len(cb.Args) {
		return false
	}
	for i := range ca.Args {
		if !unify(ca.Args[i], cb.Args[i], tr, oc) {
			return false
		}
	}
	return true
}

// Occurs reports whether v occurs in t.
func Occurs(v *Var, t Term) bool {
	t = Deref(t)
	switch t := t.(type) {
	case *Var:
		return t == v
	case *Cmp:
		for _, a := range t.Args {
			if Occurs(v, a) {
				return true
			}
		}
	}
	return false
}

// STO is a conservative "subject to occurs check" detector: it collects the equations of
// the whole unification problem without stopping at clashes and reports true if the
// resulting binding graph contains a cycle. It errs on the side of true.
func STO(a, b Term) bool {
	var tr Trail
	mark := tr.Mark()
	defer tr.Undo(mark)
	cyc := false
	var walk func(a, b Term)
	walk = func(a, b Term) {
		a, b = Deref(a), Deref(b)
		if va, ok := a.(*Var); ok {
			if vb, ok := b.(*Var); ok && va == vb {
				return
			}
			if Occurs(va, b) {
				cyc = true
				return
			}
			tr.Bind(va, b)
			return
		}
		if vb, ok := b.(*Var); ok {
			if Occurs(vb, a) {
				cyc = true
				return
			}
			tr.Bind(vb, a)
			return
		}
		ca, okA := a.(*Cmp)
		cb, okB := b.(*Cmp)
		if !okA || !okB {
			return
		}
		// keep collecting even across a functor clash (an implementation may visit
		// arguments in any order before noticing the clash)
		n := len(ca.Args)
		if len(cb.Args) < n {
			n = len(cb.Args)
		}
		for i := 0; i < n && !cyc; i++ {
			walk(ca.Args[i], cb.Args[i])
		}
	}
	walk(a, b)
	return cyc
}

// Variant reports whether a and b are equal up to a bijective renaming of variables.
func Variant(a, b Term) bool {
	return variant(a, b, map[*Var]*Var{}, map[*Var]*Var{})
}

func variant(a, b Term, ab, ba map[*Var]*Var) bool {
	a, b = Deref(a), Deref(b)
	switch x := a.(type) {
	case *Var:
		y, ok := b.(*Var)
		if !ok {
			return false
		}
		if m, ok := ab[x]; ok {
			return m == y
		}
		if _, ok := ba[y]; ok {
			return false
		}
		ab[x], ba[y] = y, x
		return true
	case *Cmp:
		y, ok := b.(*Cmp)
		if !ok || x.F != y.F || len(x.Args) != len(y.Args) {
			return false
		}
		for i := range x.Args {
			if !variant(x.Args[i], y.Args[i], ab, ba) {
				return false
			}
		}
		return true
	}
	if _, ok := b.(*Var); ok {
		return false
	}
	if _, ok := b.(*Cmp); ok {
		return false
	}
	return atomicIdentical(a, b)
}

func atomicIdentical(a, b Term) bool {
	switch a := a.(type) {
	case Flt:
		b, ok := b.(Flt)
		return ok && math.Float64bits(float64(a)) == math.Float64bits(float64(b))
	}
	return atomicEq(a, b)
}
