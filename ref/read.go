package ref

import (
	"fmt"
	"strconv"
	"strings"
	"unicode"
)

// A small reader for reference terms, used to write program templates and self-tests as text.
// Fixed operator table (the ISO defaults that the harness uses); no user-defined operators.

type opDef struct {
	pri int
	typ string
}

var infixOps = map[string]opDef{
	":-": {1200, "xfx"}, "-->": {1200, "xfx"}, ";": {1100, "xfy"}, "|": {1100, "xfy"}, "->": {1050, "xfy"}, ",": {1000, "xfy"},
	"=": {700, "xfx"}, "\\=": {700, "xfx"}, "==": {700, "xfx"}, "\\==": {700, "xfx"}, "@<": {700, "xfx"}, "@>": {700, "xfx"},
	"@=<": {700, "xfx"}, "@>=": {700, "xfx"}, "=..": {700, "xfx"}, "is": {700, "xfx"}, "=:=": {700, "xfx"}, "=\\=": {700, "xfx"},
	"<": {700, "xfx"}, ">": {700, "xfx"}, "=<": {700, "xfx"}, ">=": {700, "xfx"},
	"+": {500, "yfx"}, "-": {500, "yfx"}, "*": {400, "yfx"}, "/": {400, "yfx"}, "//": {400, "yfx"}, "mod": {400, "yfx"},
	"^": {200, "xfy"},
}

var prefixOps = map[string]opDef{
	":-": {1200, "fx"}, "\\+": {900, "fy"}, "-": {200, "fy"},
}

var anonSeq int

type tok struct {
	kind string // atom, var, int, str, punct, end
	s    string
	fn   bool // atom immediately followed by '('
}

type reader struct {
	toks []tok
	pos  int
	vars map[string]*Var
}

func lex(src string) ([]tok, error) {
	var toks []tok
	rs := []rune(src)
	i := 0
	symch := func(r rune) bool { return strings.ContainsRune("+-*/\\^<>=~:.?@#&$", r) }
	for i < len(rs) {
		r := rs[i]
		switch {
		case unicode.IsSpace(r):
			i++
		case r == '%':
			for i < len(rs) && rs[i] != '\n' {
				i++
			}
		case unicode.IsDigit(r):
			j := i
			for j < len(rs) && unicode.IsDigit(rs[j]) {
				j++
			}
			if j+1 < len(rs) && rs[j] == '.' && unicode.IsDigit(rs[j+1]) {
				j++
				for j < len(rs) && unicode.IsDigit(rs[j]) {
					j++
				}
				if j+1 < len(rs) && (rs[j] == 'e' || rs[j] == 'E') && (unicode.IsDigit(rs[j+1]) || ((rs[j+1] == '-' || rs[j+1] == '+') && j+2 < len(rs) && unicode.IsDigit(rs[j+2]))) {
					j += 2
					for j < len(rs) && unicode.IsDigit(rs[j]) {
						j++
					}
				}
				toks = append(toks, tok{kind: "float", s: string(rs[i:j])})
				i = j
				continue
			}
			toks = append(toks, tok{kind: "int", s: string(rs[i:j])})
			i = j
		case r == '_' || unicode.IsUpper(r):
			j := i
			for j < len(rs) && (rs[j] == '_' || unicode.IsLetter(rs[j]) || unicode.IsDigit(rs[j])) {
				j++
			}
			toks = append(toks, tok{kind: "var", s: string(rs[i:j])})
			i = j
		case unicode.IsLower(r):
			j := i
			for j < len(rs) && (rs[j] == '_' || unicode.IsLetter(rs[j]) || unicode.IsDigit(rs[j])) {
				j++
			}
			toks = append(toks, tok{kind: "atom", s: string(rs[i:j]), fn: j < len(rs) && rs[j] == '('})
			i = j
		case r == '\'':
			j := i + 1
			var sb strings.Builder
			for {
				if j >= len(rs) {
					return nil, fmt.Errorf("unterminated quoted atom")
				}
				if rs[j] == '\'' {
					if j+1 < len(rs) && rs[j+1] == '\'' {
						sb.WriteRune('\'')
						j += 2
						continue
					}
					break
				}
				if rs[j] == '\\' && j+1 < len(rs) {
					switch rs[j+1] {
					case 'n':
						sb.WriteRune('\n')
					case '\\':
						sb.WriteRune('\\')
					case '\'':
						sb.WriteRune('\'')
					case 't':
						sb.WriteRune('\t')
					case 'x':
						// \xHH..\
						k := j + 2
						v := 0
						for k < len(rs) && rs[k] != '\\' {
							d := strings.IndexRune("0123456789abcdef", unicode.ToLower(rs[k]))
							if d < 0 {
								return nil, fmt.Errorf("bad hex escape")
							}
							v = v*16 + d
							k++
						}
						if k >= len(rs) {
							return nil, fmt.Errorf("unterminated hex escape")
						}
						sb.WriteRune(rune(v))
						j = k + 1
						continue
					default:
						return nil, fmt.Errorf("escape not supported")
					}
					j += 2
					continue
				}
				sb.WriteRune(rs[j])
				j++
			}
			j++
			toks = append(toks, tok{kind: "atom", s: sb.String(), fn: j < len(rs) && rs[j] == '('})
			i = j
		case r == '"':
			j := i + 1
			for j < len(rs) && rs[j] != '"' {
				j++
			}
			toks = append(toks, tok{kind: "str", s: string(rs[i+1 : j])})
			i = j + 1
		case strings.ContainsRune("()[]{},|", r):
			toks = append(toks, tok{kind: "punct", s: string(r)})
			i++
		case r == '!' || r == ';':
			toks = append(toks, tok{kind: "atom", s: string(r), fn: i+1 < len(rs) && rs[i+1] == '('})
			i++
		case symch(r):
			j := i
			for j < len(rs) && symch(rs[j]) {
				j++
			}
			s := string(rs[i:j])
			if s == "." && (j >= len(rs) || unicode.IsSpace(rs[j]) || rs[j] == '%') {
				toks = append(toks, tok{kind: "end"})
			} else {
				toks = append(toks, tok{kind: "atom", s: s, fn: j < len(rs) && rs[j] == '('})
			}
			i = j
		default:
			return nil, fmt.Errorf("unexpected character %q", r)
		}
	}
	return toks, nil
}

// ReadAll parses a text of clauses; variables are scoped per clause.
func ReadAll(src string) ([]Term, error) {
	toks, err := lex(src)
	if err != nil {
		return nil, err
	}
	r := &reader{toks: toks}
	var out []Term
	for r.pos < len(r.toks) {
		r.vars = map[string]*Var{}
		t, err := r.parse(1200)
		if err != nil {
			return nil, err
		}
		if r.pos >= len(r.toks) || r.toks[r.pos].kind != "end" {
			return nil, fmt.Errorf("expected end at token %d of %q", r.pos, src)
		}
		r.pos++
		out = append(out, t)
	}
	return out, nil
}

// MustRead parses one term (no end token needed); vars collects named variables.
func MustRead(src string, vars map[string]*Var) Term {
	toks, err := lex(src)
	if err != nil {
		panic(err)
	}
	if vars == nil {
		vars = map[string]*Var{}
	}
	r := &reader{toks: toks, vars: vars}
	t, err := r.parse(1200)
	if err != nil {
		panic(fmt.Sprintf("%v in %q", err, src))
	}
	if r.pos < len(r.toks) && r.toks[r.pos].kind == "end" {
		r.pos++
	}
	if r.pos != len(r.toks) {
		panic(fmt.Sprintf("trailing tokens in %q", src))
	}
	return t
}

// MustReadAll is ReadAll that panics.
func MustReadAll(src string) []Term {
	ts, err := ReadAll(src)
	if err != nil {
		panic(fmt.Sprintf("%v in %q", err, src))
	}
	return ts
}

func (r *reader) peek() tok {
	if r.pos < len(r.toks) {
		return r.toks[r.pos]
	}
	return tok{kind: "eof"}
}

func (r *reader) parse(max int) (Term, error) {
	left, lp, err := r.primary(max)
	if err != nil {
		return nil, err
	}
	for {
		t := r.peek()
		var name string
		switch {
		case t.kind == "atom":
			name = t.s
		case t.kind == "punct" && (t.s == "," || t.s == "|"):
			name = t.s
		default:
			return left, nil
		}
		op, ok := infixOps[name]
		if !ok || op.pri > max {
			return left, nil
		}
		la, ra := op.pri-1, op.pri-1
		if op.typ == "yfx" {
			la = op.pri
		}
		if op.typ == "xfy" {
			ra = op.pri
		}
		if lp > la {
			return left, nil
		}
		r.pos++
		right, err := r.parse(ra)
		if err != nil {
			return nil, err
		}
		if name == "|" {
			name = ";"
		}
		left, lp = C(name, left, right), op.pri
	}
}

func (r *reader) primary(max int) (Term, int, error) {
	t := r.peek()
	r.pos++
	switch t.kind {
	case "int":
		v, err := strconv.ParseInt(t.s, 10, 64)
		if err != nil {
			return nil, 0, err
		}
		return Int(v), 0, nil
	case "float":
		v, err := strconv.ParseFloat(t.s, 64)
		if err != nil {
			return nil, 0, err
		}
		return Flt(v), 0, nil
	case "var":
		if t.s == "_" {
			anonSeq++
			return NewVar(fmt.Sprintf("_A%d", anonSeq)), 0, nil
		}
		if v, ok := r.vars[t.s]; ok {
			return v, 0, nil
		}
		v := NewVar(t.s)
		r.vars[t.s] = v
		return v, 0, nil
	case "str":
		return C("$str", Atom(t.s)), 0, nil
	case "punct":
		switch t.s {
		case "(":
			x, err := r.parse(1200)
			if err != nil {
				return nil, 0, err
			}
			if p := r.peek(); p.kind != "punct" || p.s != ")" {
				return nil, 0, fmt.Errorf("expected )")
			}
			r.pos++
			return x, 0, nil
		case "[":
			if p := r.peek(); p.kind == "punct" && p.s == "]" {
				r.pos++
				return Nil, 0, nil
			}
			var elems []Term
			var tail Term = Nil
			for {
				x, err := r.parse(999)
				if err != nil {
					return nil, 0, err
				}
				elems = append(elems, x)
				p := r.peek()
				r.pos++
				if p.kind == "punct" && p.s == "," {
					continue
				}
				if p.kind == "punct" && p.s == "|" {
					tl, err := r.parse(999)
					if err != nil {
						return nil, 0, err
					}
					tail = tl
					p = r.peek()
					r.pos++
				}
				if p.kind == "punct" && p.s == "]" {
					break
				}
				return nil, 0, fmt.Errorf("bad list")
			}
			return PList(tail, elems...), 0, nil
		case "{":
			if p := r.peek(); p.kind == "punct" && p.s == "}" {
				r.pos++
				return Atom("{}"), 0, nil
			}
			x, err := r.parse(1200)
			if err != nil {
				return nil, 0, err
			}
			if p := r.peek(); p.kind != "punct" || p.s != "}" {
				return nil, 0, fmt.Errorf("expected }")
			}
			r.pos++
			return C("{}", x), 0, nil
		}
		return nil, 0, fmt.Errorf("unexpected %q", t.s)
	case "atom":
		if t.fn {
			r.pos++ // (
			var args []Term
			for {
				x, err := r.parse(999)
				if err != nil {
					return nil, 0, err
				}
				args = append(args, x)
				p := r.peek()
				r.pos++
				if p.kind == "punct" && p.s == "," {
					continue
				}
				if p.kind == "punct" && p.s == ")" {
					break
				}
				return nil, 0, fmt.Errorf("bad argument list")
			}
			return &Cmp{F: t.s, Args: args}, 0, nil
		}
		if t.s == "-" {
			if p := r.peek(); p.kind == "int" {
				r.pos++
				v, _ := strconv.ParseInt("-"+p.s, 10, 64)
				return Int(v), 0, nil
			}
			if p := r.peek(); p.kind == "float" {
				r.pos++
				v, _ := strconv.ParseFloat("-"+p.s, 64)
				return Flt(v), 0, nil
			}
		}
		if op, ok := prefixOps[t.s]; ok {
			p := r.peek()
			// an operator as an atom: followed by an infix operator, a closing token or the end
			isOperand := !(p.kind == "end" || p.kind == "eof" || (p.kind == "punct" && strings.Contains(")]},|", p.s)))
			if p.kind == "atom" {
				if _, inf := infixOps[p.s]; inf {
					if _, pre := prefixOps[p.s]; !pre {
						isOperand = false
					}
				}
			}
			if isOperand && op.pri <= max {
				am := op.pri
				if op.typ == "fx" {
					am--
				}
				x, err := r.parse(am)
				if err != nil {
					return nil, 0, err
				}
				return C(t.s, x), op.pri, nil
			}
		}
		pri := 0
		if _, ok := infixOps[t.s]; ok {
			pri = 0 // atoms that are operators are only used as plain atoms inside arguments here
		}
		return Atom(t.s), pri, nil
	}
	return nil, 0, fmt.Errorf("unexpected token %v", t)
}
