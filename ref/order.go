package ref

import (
	"sort"
	"strings"
)

// Order is the reference standard order of terms as the property states it:
// Var < Float < Integer < Atom < Compound; floats and integers by value within their type;
// atoms by text; compounds by arity, then name, then arguments left to right.
// hinges is true when the result depends on the relative order of two distinct unbound
// variables (implementation dependent); cmp is then meaningless.
func Order(a, b Term) (cmp int, hinges bool) {
	a, b = Deref(a), Deref(b)
	ra, rb := rank(a), rank(b)
	if ra != rb {
		if ra < rb {
			return -1, false
		}
		return 1, false
	}
	switch x := a.(type) {
	case *Var:
		if x == b.(*Var) {
			return 0, false
		}
		return 0, true
	case Flt:
		y := b.(Flt)
		switch {
		case x < y:
			return -1, false
		case x > y:
			return 1, false
		}
		return 0, false
	case Int:
		y := b.(Int)
		switch {
		case x < y:
			return -1, false
		case x > y:
			return 1, false
		}
		return 0, false
	case Atom:
		return strings.Compare(string(x), string(b.(Atom))), false
	case *Cmp:
		y := b.(*Cmp)
		if len(x.Args) != len(y.Args) {
			if len(x.Args) < len(y.Args) {
				return -1, false
			}
			return 1, false
		}
		if c := strings.Compare(x.F, y.F); c != 0 {
			return c, false
		}
		for i := range x.Args {
			c, h := Order(x.Args[i], y.Args[i])
			if h {
				return 0, true
			}
			if c != 0 {
				return c, false
			}
		}
		return 0, false
	}
	return 0, false
}

func rank(t Term) int {
	switch t.(type) {
	case *Var:
		return 0
	case Flt:
		return 1
	case Int:
		return 2
	case Atom:
		return 3
	default:
		return 4
	}
}

// SortUnique sorts ts ascending and removes duplicates (cmp == 0). hinges reports whether
// any comparison made depended on the order of two distinct variables.
func SortUnique(ts []Term) (out []Term, hinges bool) {
	out = append(out, ts...)
	sort.SliceStable(out, func(i, j int) bool {
		c, h := Order(out[i], out[j])
		if h {
			hinges = true
		}
		return c < 0
	})
	var res []Term
	for i, t := range out {
		if i > 0 {
			c, h := Order(res[len(res)-1], t)
			if h {
				hinges = true
			}
			if c == 0 && !h {
				continue
			}
		}
		res = append(res, t)
	}
	return res, hinges
}

// HasDistinctVars reports whether ts contain at least two distinct unbound variables (a cheap
// over-approximation of "the order may hinge on variable order").
func HasDistinctVars(ts ...Term) bool {
	var vs []*Var
	for _, t := range ts {
		vs = Vars(t, vs)
	}
	return len(vs) >= 2
}
