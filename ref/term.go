// Package ref holds the reference models. Nothing in this package imports the
// implementation under test.
package ref

import (
	"fmt"
	"math"
	"strconv"
	"strings"
)

// Term is one of Atom, Int, Flt, *Var, *Cmp.
type Term interface{}

type Atom string
type Int int64
type Flt float64

// Var is a logic variable with a destructive binding (trail kept by the machine).
type Var struct {
	Name string
	Ref  Term // nil when unbound
	ID   int64
}

type Cmp struct {
	F    string
	Args []Term
}

var varSeq int64

func NewVar(name string) *Var {
	varSeq++
	return &Var{Name: name, ID: varSeq}
}

func C(f string, args ...Term) *Cmp { return &Cmp{F: f, Args: args} }

const Nil = Atom("[]")

// List builds a proper list.
func List(ts ...Term) Term { return PList(Nil, ts...) }

// PList builds a list with the given tail.
func PList(tail Term, ts ...Term) Term {
	r := tail
	for i := len(ts) - 1; i >= 0; i-- {
		r = C(".", ts[i], r)
	}
	return r
}

// Deref follows variable bindings.
func Deref(t Term) Term {
	for {
		v, ok := t.(*Var)
		if !ok || v.Ref == nil {
			return t
		}
		t = v.Ref
	}
}

// Resolve returns a copy of t with every bound variable replaced by its value.
func Resolve(t Term) Term {
	t = Deref(t)
	if c, ok := t.(*Cmp); ok {
		args := make([]Term, len(c.Args))
		for i, a := range c.Args {
			args[i] = Resolve(a)
		}
		return &Cmp{F: c.F, Args: args}
	}
	return t
}

// Namer assigns canonical names to unbound variables in order of first occurrence.
type Namer struct {
	m map[*Var]int
}

func NewNamer() *Namer { return &Namer{m: map[*Var]int{}} }

func (n *Namer) name(v *Var) string {
	i, ok := n.m[v]
	if !ok {
		i = len(n.m)
		n.m[v] = i
	}
	return "_G" + strconv.Itoa(i)
}

// Canon writes the canonical structural form of t: functional notation, all atoms
// quoted, floats by bit pattern, unbound variables named by n. Two terms have the
// same Canon text (with namers fed in the same order) iff they are variants.
func Canon(t Term, n *Namer) string {
	var sb strings.Builder
	canon(&sb, t, n)
	return sb.String()
}

func canon(sb *strings.Builder, t Term, n *Namer) {
	t = Deref(t)
	switch t := t.(type) {
	case Atom:
		sb.WriteString(QuoteAtomAlways(string(t)))
	case Int:
		sb.WriteString(strconv.FormatInt(int64(t), 10))
	case Flt:
		fmt.Fprintf(sb, "F%016x", math.Float64bits(float64(t)))
	case *Var:
		sb.WriteString(n.name(t))
	case *Cmp:
		if t.F == "." && len(t.Args) == 2 {
			sb.WriteByte('[')
			var cur Term = t
			first := true
			for {
				cur = Deref(cur)
				c, ok := cur.(*Cmp)
				if !ok || c.F != "." || len(c.Args) != 2 {
					break
				}
				if !first {
					sb.WriteByte(',')
				}
				first = false
				canon(sb, c.Args[0], n)
				cur = c.Args[1]
			}
			if cur != Term(Nil) {
				sb.WriteByte('|')
				canon(sb, cur, n)
			}
			sb.WriteByte(']')
			return
		}
		sb.WriteString(QuoteAtomAlways(t.F))
		sb.WriteByte('(')
		for i, a := range t.Args {
			if i > 0 {
				sb.WriteByte(',')
			}
			canon(sb, a, n)
		}
		sb.WriteByte(')')
	default:
		fmt.Fprintf(sb, "<?%T>", t)
	}
}

// CanonAnswer is the canonical form of one answer: the values of the query's
// variables in order, sharing one namer.
func CanonAnswer(vals []Term) string {
	n := NewNamer()
	parts := make([]string, len(vals))
	for i, v := range vals {
		parts[i] = Canon(v, n)
	}
	return strings.Join(parts, " ; ")
}

func QuoteAtomAlways(s string) string {
	var sb strings.Builder
	sb.WriteByte('\'')
	for _, r := range s {
		switch r {
		case '\'':
			sb.WriteString(`\'`)
		case '\\':
			sb.WriteString(`\\`)
		case '\n':
			sb.WriteString(`\n`)
		case '\t':
			sb.WriteString(`\t`)
		default:
			if r < 0x20 || r == 0x7f {
				fmt.Fprintf(&sb, `\x%x\`, r)
			} else {
				sb.WriteRune(r)
			}
		}
	}
	sb.WriteByte('\'')
	return sb.String()
}

func simpleAtom(s string) bool {
	if s == "" {
		return false
	}
	if s == "[]" || s == "!" || s == "{}" || s == ";" {
		return true
	}
	if s[0] < 'a' || s[0] > 'z' {
		return false
	}
	for i := 0; i < len(s); i++ {
		c := s[i]
		if !(c >= 'a' && c <= 'z' || c >= 'A' && c <= 'Z' || c >= '0' && c <= '9' || c == '_') {
			return false
		}
	}
	return true
}

// QuoteAtom quotes unless the atom is a plain lower-case identifier or solo atom.
func QuoteAtom(s string) string {
	if simpleAtom(s) {
		return s
	}
	return QuoteAtomAlways(s)
}

// Text writes t as Prolog source text that does not depend on any operator other
// than the ISO control operators  :-  ,  ;  ->  \+  =  (always parenthesised).
// Variables are written by their Name (or _Vn by ID when unnamed). Strings
// (Cmp with F=="$str", one Atom arg) are written double-quoted.
func Text(t Term) string {
	var sb strings.Builder
	text(&sb, t)
	return sb.String()
}

func FloatText(f float64) string {
	if f == 0 && math.Signbit(f) {
		return "-0.0"
	}
	s := strconv.FormatFloat(f, 'g', -1, 64)
	if !strings.ContainsAny(s, ".") {
		if i := strings.IndexByte(s, 'e'); i >= 0 {
			s = s[:i] + ".0" + s[i:]
		} else {
			s += ".0"
		}
	}
	return s
}

func text(sb *strings.Builder, t Term) {
	t = Deref(t)
	switch t := t.(type) {
	case Atom:
		sb.WriteString(QuoteAtom(string(t)))
	case Int:
		sb.WriteString(strconv.FormatInt(int64(t), 10))
	case Flt:
		sb.WriteString(FloatText(float64(t)))
	case *Var:
		if t.Name != "" {
			sb.WriteString(t.Name)
		} else {
			fmt.Fprintf(sb, "_V%d", t.ID)
		}
	case *Cmp:
		switch {
		case t.F == "$str" && len(t.Args) == 1:
			sb.WriteByte('"')
			for _, r := range string(t.Args[0].(Atom)) {
				switch r {
				case '"':
					sb.WriteString(`\"`)
				case '\\':
					sb.WriteString(`\\`)
				case '\n':
					sb.WriteString(`\n`)
				default:
					sb.WriteRune(r)
				}
			}
			sb.WriteByte('"')
		case t.F == "$dot" && len(t.Args) == 2:
			// the same term as [H|T], written as a plain compound
			sb.WriteString("'.'(")
			text(sb, t.Args[0])
			sb.WriteByte(',')
			text(sb, t.Args[1])
			sb.WriteByte(')')
		case t.F == "$bar" && len(t.Args) == 2:
			// [H|T] written literally (no flattening of the tail)
			sb.WriteByte('[')
			text(sb, t.Args[0])
			sb.WriteByte('|')
			text(sb, t.Args[1])
			sb.WriteByte(']')
		case t.F == "$raw" && len(t.Args) == 1:
			sb.WriteString(string(t.Args[0].(Atom)))
		case t.F == "." && len(t.Args) == 2:
			sb.WriteByte('[')
			var cur Term = t
			first := true
			for {
				cur = Deref(cur)
				c, ok := cur.(*Cmp)
				if !ok || c.F != "." || len(c.Args) != 2 {
					break
				}
				if !first {
					sb.WriteByte(',')
				}
				first = false
				textArg(sb, c.Args[0])
				cur = c.Args[1]
			}
			if cur != Term(Nil) {
				sb.WriteByte('|')
				textArg(sb, cur)
			}
			sb.WriteByte(']')
		case len(t.Args) == 2 && (t.F == ":-" || t.F == "," || t.F == ";" || t.F == "->" || t.F == "=" || t.F == "-->"):
			sb.WriteByte('(')
			text(sb, t.Args[0])
			sb.WriteString(" " + t.F + " ")
			text(sb, t.Args[1])
			sb.WriteByte(')')
		case len(t.Args) == 1 && (t.F == "\\+" || t.F == ":-"):
			sb.WriteByte('(')
			sb.WriteString(t.F + " ")
			text(sb, t.Args[0])
			sb.WriteByte(')')
		case t.F == "{}" && len(t.Args) == 1:
			sb.WriteByte('{')
			text(sb, t.Args[0])
			sb.WriteByte('}')
		default:
			sb.WriteString(QuoteAtom(t.F))
			sb.WriteByte('(')
			for i, a := range t.Args {
				if i > 0 {
					sb.WriteByte(',')
				}
				textArg(sb, a)
			}
			sb.WriteByte(')')
		}
	}
}

func textArg(sb *strings.Builder, t Term) {
	text(sb, t) // every operator term is already parenthesised
}

// ClauseText writes a clause / directive followed by the end token.
func ClauseText(t Term) string {
	s := Text(t)
	// strip the outer parentheses of a top-level operator term: harmless either way,
	// but the unparenthesised form is what users write.
	if len(s) > 1 && s[0] == '(' {
		if c, ok := Deref(t).(*Cmp); ok && (c.F == ":-" || c.F == "-->") {
			s = s[1 : len(s)-1]
		}
	}
	return s + ".\n"
}

// Vars returns the distinct unbound variables of t in order of first occurrence.
func Vars(t Term, acc []*Var) []*Var {
	t = Deref(t)
	switch t := t.(type) {
	case *Var:
		for _, v := range acc {
			if v == t {
				return acc
			}
		}
		return append(acc, t)
	case *Cmp:
		for _, a := range t.Args {
			acc = Vars(a, acc)
		}
	}
	return acc
}

// Copy renames t apart (bindings applied), using and extending m.
func Copy(t Term, m map[*Var]*Var) Term {
	t = Deref(t)
	switch t := t.(type) {
	case *Var:
		if nv, ok := m[t]; ok {
			return nv
		}
		nv := NewVar("")
		m[t] = nv
		return nv
	case *Cmp:
		args := make([]Term, len(t.Args))
		for i, a := range t.Args {
			args[i] = Copy(a, m)
		}
		return &Cmp{F: t.F, Args: args}
	}
	return t
}

// Size counts the nodes of a term.
func Size(t Term) int {
	t = Deref(t)
	if c, ok := t.(*Cmp); ok {
		n := 1
		for _, a := range c.Args {
			n += Size(a)
		}
		return n
	}
	return 1
}

// ListSlice returns the elements and the tail of a (possibly partial) list.
func ListSlice(t Term) (elems []Term, tail Term) {
	for {
		t = Deref(t)
		c, ok := t.(*Cmp)
		if !ok || c.F != "." || len(c.Args) != 2 {
			return elems, t
		}
		elems = append(elems, c.Args[0])
		t = c.Args[1]
	}
}

// Indicator returns name/arity of a callable term.
func Indicator(t Term) (string, int, bool) {
	switch t := Deref(t).(type) {
	case Atom:
		return string(t), 0, true
	case *Cmp:
		return t.F, len(t.Args), true
	}
	return "", 0, false
}

// ExpandStrings replaces "$str"(Text) nodes by what a double-quoted literal denotes under mode
// ("codes", "chars" or "atom").
func ExpandStrings(t Term, mode string) Term {
	t = Deref(t)
	c, ok := t.(*Cmp)
	if !ok {
		return t
	}
	if (c.F == "$dot" || c.F == "$bar") && len(c.Args) == 2 {
		return &Cmp{F: ".", Args: []Term{ExpandStrings(c.Args[0], mode), ExpandStrings(c.Args[1], mode)}}
	}
	if c.F == "$str" && len(c.Args) == 1 {
		s := string(c.Args[0].(Atom))
		switch mode {
		case "atom":
			return Atom(s)
		case "chars":
			var es []Term
			for _, r := range s {
				es = append(es, Atom(string(r)))
			}
			return List(es...)
		default:
			var es []Term
			for _, r := range s {
				es = append(es, Int(r))
			}
			return List(es...)
		}
	}
	args := make([]Term, len(c.Args))
	for i, a := range c.Args {
		args[i] = ExpandStrings(a, mode)
	}
	return &Cmp{F: c.F, Args: args}
}

// NormErr replaces the (implementation defined) context argument of every error/2 term by '$ctx'.
func NormErr(t Term) Term {
	t = Deref(t)
	c, ok := t.(*Cmp)
	if !ok {
		return t
	}
	args := make([]Term, len(c.Args))
	for i, a := range c.Args {
		args[i] = NormErr(a)
	}
	if c.F == "error" && len(args) == 2 {
		args[1] = Atom("$ctx")
	}
	return &Cmp{F: c.F, Args: args}
}
