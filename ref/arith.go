package ref

import (
	"math"
	"math/big"
)

// ArithResult is what the reference says an evaluation may produce. Exactly one of the
// fields describes a set of admissible outcomes.
type ArithResult struct {
	// Admissible values (any one of them is accepted). Ints as Int, floats as Flt.
	Vals []Term
	// FloatNumeric: compare float values with == instead of by bit pattern (sign of zero open).
	FloatNumeric bool
	// Admissible error kinds, e.g. "int_overflow", "zero_divisor", "float_overflow", "undefined",
	// "underflow", "type_error(integer)", "type_error(float)", "type_error(evaluable)",
	// "instantiation_error", "anyerror".
	Errs []string
	// Unspecified: nothing is asserted (outside the property's stated domain).
	Unspecified bool
}

func val(t Term) ArithResult       { return ArithResult{Vals: []Term{t}} }
func aerr(k ...string) ArithResult { return ArithResult{Errs: k} }

var (
	bigMin = big.NewInt(math.MinInt64)
	bigMax = big.NewInt(math.MaxInt64)
)

func fitInt(b *big.Int) ArithResult {
	if b.Cmp(bigMin) < 0 || b.Cmp(bigMax) > 0 {
		return aerr("int_overflow")
	}
	return val(Int(b.Int64()))
}

func bi(i Int) *big.Int { return big.NewInt(int64(i)) }

func floatRes(r float64, x, y float64, op string) ArithResult {
	switch {
	case math.IsNaN(r):
		return aerr("undefined")
	case math.IsInf(r, 0):
		return aerr("float_overflow")
	}
	res := val(Flt(r))
	// underflow: a non-zero exact result that rounds to zero may be reported as underflow
	if r == 0 {
		switch op {
		case "*":
			if x != 0 && y != 0 {
				res.Errs = []string{"underflow"}
			}
		case "/":
			if x != 0 {
				res.Errs = []string{"underflow"}
			}
		}
	}
	return res
}

func isInt(t Term) bool { _, ok := t.(Int); return ok }

func toF(t Term) float64 {
	switch t := t.(type) {
	case Int:
		return float64(int64(t))
	case Flt:
		return float64(t)
	}
	return math.NaN()
}

// Unary evaluates f(x) for a number x.
func Unary(f string, x Term) ArithResult {
	switch f {
	case "-":
		if i, ok := x.(Int); ok {
			return fitInt(new(big.Int).Neg(bi(i)))
		}
		return val(Flt(-toF(x)))
	case "+":
		return val(x)
	case "abs":
		if i, ok := x.(Int); ok {
			return fitInt(new(big.Int).Abs(bi(i)))
		}
		return val(Flt(math.Abs(toF(x))))
	case "sign":
		if i, ok := x.(Int); ok {
			return val(Int(bi(i).Sign()))
		}
		v := toF(x)
		r := ArithResult{FloatNumeric: true}
		switch {
		case v > 0:
			r.Vals = []Term{Flt(1)}
		case v < 0:
			r.Vals = []Term{Flt(-1)}
		default:
			r.Vals = []Term{Flt(0)}
		}
		return r
	case "\\":
		if i, ok := x.(Int); ok {
			return val(Int(^int64(i)))
		}
		return aerr("type_error(integer)")
	case "float":
		return val(Flt(toF(x)))
	case "float_integer_part", "float_fractional_part":
		fx, ok := x.(Flt)
		if !ok {
			return aerr("type_error(float)")
		}
		v := float64(fx)
		ip := math.Trunc(v)
		r := ArithResult{FloatNumeric: true}
		if f == "float_integer_part" {
			r.Vals = []Term{Flt(ip)}
		} else {
			r.Vals = []Term{Flt(v - ip)}
		}
		return r
	case "floor", "truncate", "round", "ceiling":
		fx, ok := x.(Flt)
		if !ok {
			return aerr("type_error(float)")
		}
		v := float64(fx)
		bf := new(big.Float).SetFloat64(v)
		var out []*big.Int
		toInt := func(b *big.Float) *big.Int { i, _ := b.Int(nil); return i } // truncates
		tr := toInt(bf)
		isIntegral := new(big.Float).SetInt(tr).Cmp(bf) == 0
		switch f {
		case "truncate":
			out = append(out, tr)
		case "floor":
			if !isIntegral && v < 0 {
				tr = new(big.Int).Sub(tr, big.NewInt(1))
			}
			out = append(out, tr)
		case "ceiling":
			if !isIntegral && v > 0 {
				tr = new(big.Int).Add(tr, big.NewInt(1))
			}
			out = append(out, tr)
		case "round":
			// nearest integer; ties: ISO says floor(x+1/2), most systems round half away from
			// zero - both accepted.
			frac := new(big.Float).Sub(bf, new(big.Float).SetInt(tr)) // sign of v, |frac|<1
			half := big.NewFloat(0.5)
			af := new(big.Float).Abs(frac)
			away := new(big.Int).Set(tr)
			if v > 0 {
				away.Add(away, big.NewInt(1))
			} else {
				away.Sub(away, big.NewInt(1))
			}
			switch af.Cmp(half) {
			case -1:
				out = append(out, tr)
			case 1:
				out = append(out, away)
			default:
				out = append(out, away)
				if v > 0 {
					// floor(x+1/2) = away for positive ties as well
				} else {
					out = append(out, tr) // floor(x+1/2) for negative ties
				}
			}
		}
		var r ArithResult
		for _, b := range out {
			fr := fitInt(b)
			r.Vals = append(r.Vals, fr.Vals...)
			r.Errs = append(r.Errs, fr.Errs...)
		}
		return r
	}
	return ArithResult{Unspecified: true}
}

var intOnly = map[string]bool{"//": true, "div": true, "mod": true, "rem": true, "/\\": true, "\\/": true, "xor": true, "<<": true, ">>": true}

// Binary evaluates f(x, y) for numbers x, y.
func Binary(f string, x, y Term) ArithResult {
	xi, xIsInt := x.(Int)
	yi, yIsInt := y.(Int)
	if intOnly[f] && !(xIsInt && yIsInt) {
		return aerr("type_error(integer)")
	}
	bothInt := xIsInt && yIsInt
	switch f {
	case "+", "-", "*":
		if bothInt {
			z := new(big.Int)
			switch f {
			case "+":
				z.Add(bi(xi), bi(yi))
			case "-":
				z.Sub(bi(xi), bi(yi))
			case "*":
				z.Mul(bi(xi), bi(yi))
			}
			return fitInt(z)
		}
		a, b := toF(x), toF(y)
		var r float64
		switch f {
		case "+":
			r = a + b
		case "-":
			r = a - b
		case "*":
			r = a * b
		}
		return floatRes(r, a, b, f)
	case "/":
		a, b := toF(x), toF(y)
		if b == 0 {
			if bothInt || true {
				// ISO: zero_divisor for a zero divisor; 0.0/0.0 may also be reported as undefined
				if a == 0 && !bothInt {
					return aerr("zero_divisor", "undefined")
				}
				return aerr("zero_divisor")
			}
		}
		r := floatRes(a/b, a, b, "/")
		if bothInt {
			// ISO allows an integer quotient when it is exact
			q, m := new(big.Int).QuoRem(bi(xi), bi(yi), new(big.Int))
			if m.Sign() == 0 {
				fr := fitInt(q)
				r.Vals = append(r.Vals, fr.Vals...)
			}
		}
		return r
	case "//":
		if yi == 0 {
			return aerr("zero_divisor")
		}
		return fitInt(new(big.Int).Quo(bi(xi), bi(yi))) // truncating
	case "rem":
		if yi == 0 {
			return aerr("zero_divisor")
		}
		return fitInt(new(big.Int).Rem(bi(xi), bi(yi))) // sign of dividend
	case "div", "mod":
		if yi == 0 {
			return aerr("zero_divisor")
		}
		// floor division
		q, m := new(big.Int).QuoRem(bi(xi), bi(yi), new(big.Int))
		if m.Sign() != 0 && (m.Sign() < 0) != (bi(yi).Sign() < 0) {
			q.Sub(q, big.NewInt(1))
			m.Add(m, bi(yi))
		}
		if f == "div" {
			return fitInt(q)
		}
		return fitInt(m)
	case "min", "max":
		if bothInt {
			if (f == "min") == (xi < yi) {
				return val(xi)
			}
			return val(yi)
		}
		a, b := toF(x), toF(y)
		r := ArithResult{FloatNumeric: true}
		switch {
		case a == b:
			r.Vals = []Term{x, y}
		case (f == "min") == (a < b):
			r.Vals = []Term{x}
		default:
			r.Vals = []Term{y}
		}
		return r
	case "/\\":
		return val(Int(int64(xi) & int64(yi)))
	case "\\/":
		return val(Int(int64(xi) | int64(yi)))
	case "xor":
		return val(Int(int64(xi) ^ int64(yi)))
	case "<<":
		if yi < 0 || yi > 63 {
			return ArithResult{Unspecified: true}
		}
		z := new(big.Int).Lsh(bi(xi), uint(yi))
		if z.Cmp(bigMin) < 0 || z.Cmp(bigMax) > 0 {
			return ArithResult{Unspecified: true} // overflowing shifts are outside the statement
		}
		return val(Int(z.Int64()))
	case ">>":
		if yi < 0 || yi > 63 {
			return ArithResult{Unspecified: true}
		}
		if xi < 0 {
			// ISO: implementation defined (arithmetic or logical); arithmetic = floor is what
			// "mathematically exact" means, logical is tolerated.
			return ArithResult{Vals: []Term{Int(int64(xi) >> uint(yi)), Int(int64(uint64(xi) >> uint(yi)))}}
		}
		return val(Int(int64(xi) >> uint(yi)))
	case "^":
		if bothInt {
			if yi < 0 {
				switch xi {
				case 1:
					return val(Int(1))
				case -1:
					if yi%2 == 0 {
						return val(Int(1))
					}
					return val(Int(-1))
				default:
					return aerr("anyerror") // 0^-n undefined / zero_divisor; n^-m type_error(float)
				}
			}
			// exact power; stop early when it certainly overflows
			if xi == 0 || xi == 1 || xi == -1 || yi < 200 {
				z := new(big.Int).Exp(bi(xi), bi(yi), nil)
				return fitInt(z)
			}
			return aerr("int_overflow")
		}
		return powF(toF(x), toF(y))
	case "**":
		r := powF(toF(x), toF(y))
		if bothInt {
			// Cor.2 systems may return the exact integer power
			if yi >= 0 && (yi < 200 || xi == 0 || xi == 1 || xi == -1) {
				fr := fitInt(new(big.Int).Exp(bi(xi), bi(yi), nil))
				r.Vals = append(r.Vals, fr.Vals...)
				r.Errs = append(r.Errs, fr.Errs...)
			}
		}
		return r
	}
	return ArithResult{Unspecified: true}
}

func powF(a, b float64) ArithResult {
	if a == 0 && b < 0 {
		return aerr("undefined", "zero_divisor")
	}
	r := math.Pow(a, b)
	switch {
	case math.IsNaN(r):
		return aerr("undefined")
	case math.IsInf(r, 0):
		return aerr("float_overflow")
	}
	res := val(Flt(r))
	if r == 0 && a != 0 {
		res.Errs = []string{"underflow"}
	}
	return res
}

// Compare decides op(x, y) for op in =:= =\= < =< > >=.
func Compare(op string, x, y Term) bool {
	xi, xIsInt := x.(Int)
	yi, yIsInt := y.(Int)
	if xIsInt && yIsInt {
		switch op {
		case "=:=":
			return xi == yi
		case "=\\=":
			return xi != yi
		case "<":
			return xi < yi
		case "=<":
			return xi <= yi
		case ">":
			return xi > yi
		case ">=":
			return xi >= yi
		}
	}
	a, b := toF(x), toF(y)
	switch op {
	case "=:=":
		return a == b
	case "=\\=":
		return a != b
	case "<":
		return a < b
	case "=<":
		return a <= b
	case ">":
		return a > b
	case ">=":
		return a >= b
	}
	panic("bad op " + op)
}

// Expr evaluates an expression tree of Int/Flt leaves and Cmp nodes. When both operands of a
// binary node raise, either error is admissible (the order of evaluation is not fixed).
func Expr(t Term) ArithResult {
	switch t := t.(type) {
	case Int, Flt:
		return val(t)
	case *Cmp:
		switch len(t.Args) {
		case 1:
			a := Expr(t.Args[0])
			return lift1(t.F, a)
		case 2:
			a, b := Expr(t.Args[0]), Expr(t.Args[1])
			return lift2(t.F, a, b)
		}
	}
	return ArithResult{Unspecified: true}
}

func lift1(f string, a ArithResult) ArithResult {
	if a.Unspecified {
		return a
	}
	var r ArithResult
	r.Errs = append(r.Errs, a.Errs...)
	for _, v := range a.Vals {
		x := Unary(f, v)
		if x.Unspecified {
			return x
		}
		r.Vals = append(r.Vals, x.Vals...)
		r.Errs = append(r.Errs, x.Errs...)
		r.FloatNumeric = r.FloatNumeric || x.FloatNumeric || a.FloatNumeric
	}
	return r
}

func lift2(f string, a, b ArithResult) ArithResult {
	if a.Unspecified {
		return a
	}
	if b.Unspecified {
		return b
	}
	var r ArithResult
	r.Errs = append(append(r.Errs, a.Errs...), b.Errs...)
	for _, v := range a.Vals {
		for _, w := range b.Vals {
			x := Binary(f, v, w)
			if x.Unspecified {
				return x
			}
			r.Vals = append(r.Vals, x.Vals...)
			r.Errs = append(r.Errs, x.Errs...)
			r.FloatNumeric = r.FloatNumeric || x.FloatNumeric || a.FloatNumeric || b.FloatNumeric
		}
	}
	return r
}
