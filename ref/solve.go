package ref

import (
	"errors"
	"fmt"
	"strings"
)

// A textbook Prolog machine: explicit goal stack, explicit choice-point stack, destructive
// bindings with a trail. It follows ISO 13211-1 and DESIGN.md Appendix A and shares no code or
// design with the implementation under test (which uses promises, continuations and a
// persistent environment).

var ErrBudget = errors.New("reference step budget exceeded")
var ErrUnsupported = errors.New("construct not supported by the reference")

type Clause struct {
	Head, Body Term
	Erased     bool
}

type Pred struct {
	Name    string
	Arity   int
	Clauses []*Clause
	Dynamic bool
}

type DB struct {
	Preds map[string]*Pred
	// Grammar rules (Head --> Body), interpreted directly - never translated. Key: name/arity of
	// the non-terminal (arity without the two list arguments).
	Grammar map[string][]*GRule
}

// GRule is one grammar rule; PB is the push-back list (nil if none).
type GRule struct {
	Head, PB, Body Term
}

func Key(name string, arity int) string { return fmt.Sprintf("%s/%d", name, arity) }

func NewDB() *DB { return &DB{Preds: map[string]*Pred{}} }

// Clone copies the database (clauses are shared but clause lists are not).
func (db *DB) Clone() *DB {
	n := NewDB()
	for k, p := range db.Preds {
		np := *p
		np.Clauses = append([]*Clause{}, p.Clauses...)
		n.Preds[k] = &np
	}
	for k, g := range db.Grammar {
		if n.Grammar == nil {
			n.Grammar = map[string][]*GRule{}
		}
		n.Grammar[k] = append([]*GRule{}, g...)
	}
	return n
}

// World is the state shared by a machine and its sub-machines.
type World struct {
	DB     *DB
	Out    strings.Builder
	Steps  int
	Budget int
	Trail  Trail
	// RetractSkipsErased: on backtracking, retract/1 skips a snapshot clause that has been removed
	// meanwhile (false: it succeeds once more without removing anything, as in the ISO 8.9.3.4 example).
	// The property leaves this open; the harness sets it to what the implementation does.
	RetractSkipsErased bool
	// StrictDB: abolish/retractall of a non-existent procedure is reported as unsupported.
	StrictDB bool
	// UnknownFail: calling an undefined procedure fails instead of raising existence_error.
	UnknownFail bool
}

func NewWorld(db *DB, budget int) *World {
	w := &World{DB: db, Budget: budget}
	w.Trail.CheckSTO = true
	w.StrictDB = true
	return w
}

type frame struct {
	goal Term
	cutB int
	next *frame
}

type cpKind int

const (
	cpClauses cpKind = iota
	cpAlt
	cpCatch
	cpGen
)

type choice struct {
	kind  cpKind
	mark  int
	goals *frame // continuation after the goal that created this choice point

	// cpClauses
	goal    Term
	clauses []*Clause
	idx     int

	// cpAlt
	alt *frame

	// cpCatch
	catcher, recovery Term
	active            bool
	cutB              int

	// cpGen
	gen func() bool
}

type Machine struct {
	W     *World
	goals *frame
	cps   []*choice
	done  bool
	first bool
}

type ballPanic struct{ ball Term }

// Throw raises a Prolog exception from inside a built-in.
func Throw(ball Term) { panic(ballPanic{ball}) }

func ErrTerm(formal Term) Term { return C("error", formal, NewVar("")) }

func InstErr()                        { Throw(ErrTerm(Atom("instantiation_error"))) }
func TypeErr(kind string, culprit Term) { Throw(ErrTerm(C("type_error", Atom(kind), Resolve(culprit)))) }
func DomErr(kind string, culprit Term)  { Throw(ErrTerm(C("domain_error", Atom(kind), Resolve(culprit)))) }
func ExistErr(kind string, culprit Term) {
	Throw(ErrTerm(C("existence_error", Atom(kind), Resolve(culprit))))
}
func PermErr(action, typ string, culprit Term) {
	Throw(ErrTerm(C("permission_error", Atom(action), Atom(typ), Resolve(culprit))))
}
func EvalErr(kind string) { Throw(ErrTerm(C("evaluation_error", Atom(kind)))) }
func ReprErr(kind string) { Throw(ErrTerm(C("representation_error", Atom(kind)))) }

func PI(name string, arity int) Term { return C("/", Atom(name), Int(arity)) }

// NewMachine prepares the execution of goal (as call(goal)).
func (w *World) NewMachine(goal Term) *Machine {
	m := &Machine{W: w, first: true}
	m.goals = &frame{goal: C("call", goal), cutB: 0}
	return m
}

// Next finds the next solution. ball != nil: the execution ended with an uncaught exception.
// err != nil: the reference gave up (budget / unsupported construct) - no verdict.
func (m *Machine) Next() (ok bool, ball Term, err error) {
	for {
		var retry bool
		ok, ball, err, retry = m.next1()
		if !retry {
			return
		}
	}
}

// next1 runs until an answer, the end, or a panic raised outside a step (a redo of a
// non-deterministic built-in); a ball raised there is handled like any other throw.
func (m *Machine) next1() (ok bool, ball Term, err error, retry bool) {
	defer func() {
		if r := recover(); r != nil {
			switch r := r.(type) {
			case ballPanic:
				if m.handleThrow(r.ball) {
					m.first = true // resume the main loop without backtracking
					retry = true
					return
				}
				m.done = true
				ok, ball, err = false, r.ball, nil
			case unsupportedPanic:
				m.done = true
				err = fmt.Errorf("%w: %s", ErrUnsupported, r.what)
			case subError:
				m.done = true
				err = r.err
			default:
				panic(r)
			}
		}
	}()
	ok, ball, err = m.next0()
	return
}

func (m *Machine) next0() (ok bool, ball Term, err error) {
	if m.done {
		return false, nil, nil
	}
	if !m.first {
		if !m.backtrack() {
			m.done = true
			return false, nil, nil
		}
	}
	m.first = false
	for {
		if m.goals == nil {
			return true, nil, nil
		}
		m.W.Steps++
		if m.W.Steps > m.W.Budget {
			m.done = true
			return false, nil, ErrBudget
		}
		fr := m.goals
		m.goals = fr.next
		res, b, e := m.safeStep(fr)
		if m.W.Trail.STO {
			e = fmt.Errorf("%w: unification subject to occurs check (undefined by ISO)", ErrUnsupported)
		}
		if e != nil {
			m.done = true
			return false, nil, e
		}
		if b != nil {
			if !m.handleThrow(b) {
				m.done = true
				return false, b, nil
			}
			continue
		}
		if !res {
			if !m.backtrack() {
				m.done = true
				return false, nil, nil
			}
		}
	}
}

type unsupportedPanic struct{ what string }

func Unsupported(what string) { panic(unsupportedPanic{what}) }

func (m *Machine) safeStep(fr *frame) (ok bool, ball Term, err error) {
	defer func() {
		if r := recover(); r != nil {
			switch r := r.(type) {
			case ballPanic:
				ball = r.ball
			case unsupportedPanic:
				err = fmt.Errorf("%w: %s", ErrUnsupported, r.what)
			case subError:
				err = r.err
			default:
				panic(r)
			}
		}
	}()
	return m.step(fr), nil, nil
}

type subError struct{ err error }

func (m *Machine) cutTo(n int) {
	if n < len(m.cps) {
		m.cps = m.cps[:n]
	}
}

func (m *Machine) push(c *choice) {
	c.mark = m.W.Trail.Mark()
	m.cps = append(m.cps, c)
}

// backtrack resumes the most recent alternative. false: no alternative left.
func (m *Machine) backtrack() bool {
	for len(m.cps) > 0 {
		c := m.cps[len(m.cps)-1]
		m.W.Trail.Undo(c.mark)
		switch c.kind {
		case cpCatch:
			m.cps = m.cps[:len(m.cps)-1]
		case cpAlt:
			m.cps = m.cps[:len(m.cps)-1]
			m.goals = c.alt
			return true
		case cpGen:
			m.goals = c.goals
			if c.gen() {
				return true
			}
			// exhausted: remove it (it may have been buried by nothing: gen pushes no cps)
			m.W.Trail.Undo(c.mark)
			m.removeChoice(c)
		case cpClauses:
			if m.tryClauses(c) {
				return true
			}
		}
	}
	return false
}

func (m *Machine) removeChoice(c *choice) {
	for i := len(m.cps) - 1; i >= 0; i-- {
		if m.cps[i] == c {
			m.cps = m.cps[:i]
			return
		}
	}
}

// tryClauses tries the clauses of c from c.idx on; c is on top of the stack.
func (m *Machine) tryClauses(c *choice) bool {
	base := len(m.cps) - 1 // index of c: cutting to base removes c itself
	for c.idx < len(c.clauses) {
		cl := c.clauses[c.idx]
		c.idx++
		ren := map[*Var]*Var{}
		head := Copy(cl.Head, ren)
		mark := m.W.Trail.Mark()
		if Unify(head, c.goal, &m.W.Trail) {
			if c.idx >= len(c.clauses) {
				// last alternative: the choice point is no longer needed
				m.cps = m.cps[:base]
			}
			body := Copy(cl.Body, ren)
			m.goals = &frame{goal: body, cutB: base, next: c.goals}
			return true
		}
		m.W.Trail.Undo(mark)
	}
	m.cps = m.cps[:base]
	return false
}

// handleThrow unwinds to the innermost active catch whose catcher unifies with the ball.
func (m *Machine) handleThrow(ball Term) bool {
	ball = Copy(ball, map[*Var]*Var{})
	for len(m.cps) > 0 {
		c := m.cps[len(m.cps)-1]
		m.cps = m.cps[:len(m.cps)-1]
		if c.kind != cpCatch || !c.active {
			continue
		}
		m.W.Trail.Undo(c.mark)
		mark := m.W.Trail.Mark()
		if Unify(c.catcher, ball, &m.W.Trail) {
			m.goals = &frame{goal: C("call", c.recovery), cutB: len(m.cps), next: c.goals}
			return true
		}
		m.W.Trail.Undo(mark)
	}
	return false
}

// ToBody converts a term into a body: variables in goal positions become call(V); a
// non-callable goal position makes the whole term non-callable (ok=false).
func ToBody(t Term) (Term, bool) {
	t = Deref(t)
	switch x := t.(type) {
	case *Var:
		return C("call", x), true
	case Atom:
		return x, true
	case *Cmp:
		if len(x.Args) == 2 && (x.F == "," || x.F == ";" || x.F == "->") {
			a, ok1 := ToBody(x.Args[0])
			b, ok2 := ToBody(x.Args[1])
			if !ok1 || !ok2 {
				return nil, false
			}
			return C(x.F, a, b), true
		}
		return x, true
	}
	return nil, false
}

func (m *Machine) step(fr *frame) bool {
	w := m.W
	goal := Deref(fr.goal)
	cont := m.goals
	var name string
	var args []Term
	switch g := goal.(type) {
	case *Var:
		InstErr()
	case Atom:
		name = string(g)
	case *Cmp:
		name, args = g.F, g.Args
	default:
		TypeErr("callable", goal)
	}
	switch Key(name, len(args)) {
	case "true/0":
		return true
	case "fail/0", "false/0":
		return false
	case "!/0":
		m.cutTo(fr.cutB)
		return true
	case ",/2":
		m.goals = &frame{goal: args[0], cutB: fr.cutB, next: &frame{goal: args[1], cutB: fr.cutB, next: cont}}
		return true
	case ";/2":
		if c, ok := Deref(args[0]).(*Cmp); ok && c.F == "->" && len(c.Args) == 2 {
			m.ite(c.Args[0], c.Args[1], args[1], fr.cutB, cont)
			return true
		}
		m.push(&choice{kind: cpAlt, alt: &frame{goal: args[1], cutB: fr.cutB, next: cont}})
		m.goals = &frame{goal: args[0], cutB: fr.cutB, next: cont}
		return true
	case "->/2":
		m.ite(args[0], args[1], Atom("fail"), fr.cutB, cont)
		return true
	case "$ite/1":
		m.cutTo(int(args[0].(Int)))
		return true
	case "\\+/1":
		m.ite(C("call", args[0]), Atom("fail"), Atom("true"), fr.cutB, cont)
		return true
	case "once/1":
		m.ite(C("call", args[0]), Atom("true"), Atom("fail"), fr.cutB, cont)
		return true
	case "ignore/1":
		m.ite(C("call", args[0]), Atom("true"), Atom("true"), fr.cutB, cont)
		return true
	case "call/1", "call/2", "call/3", "call/4", "call/5", "call/6", "call/7", "call/8":
		g := Deref(args[0])
		if len(args) > 1 {
			switch x := g.(type) {
			case *Var:
				InstErr()
			case Atom:
				g = &Cmp{F: string(x), Args: append([]Term{}, args[1:]...)}
			case *Cmp:
				g = &Cmp{F: x.F, Args: append(append([]Term{}, x.Args...), args[1:]...)}
			default:
				TypeErr("callable", g)
			}
		}
		if _, ok := g.(*Var); ok {
			InstErr()
		}
		body, ok := ToBody(g)
		if !ok {
			TypeErr("callable", g)
		}
		m.goals = &frame{goal: body, cutB: len(m.cps), next: cont}
		return true
	case "catch/3":
		c := &choice{kind: cpCatch, catcher: args[1], recovery: args[2], active: true, goals: cont}
		m.push(c)
		m.goals = &frame{goal: C("call", args[0]), cutB: len(m.cps), next: &frame{goal: &Cmp{F: "$exit_catch", Args: []Term{catchRef{c}}}, next: cont}}
		return true
	case "$exit_catch/1":
		c := args[0].(catchRef).c
		w.Trail.SetFlag(&c.active, false)
		return true
	case "throw/1":
		b := Deref(args[0])
		if _, ok := b.(*Var); ok {
			InstErr()
		}
		Throw(Resolve(b))
	case "call_nth/2":
		switch n := Deref(args[1]).(type) {
		case *Var:
		case Int:
			if n < 0 {
				DomErr("not_less_than_zero", n)
			}
			if n == 0 {
				return false
			}
		default:
			TypeErr("integer", n)
		}
		m.goals = &frame{goal: C("call", args[0]), cutB: len(m.cps), next: &frame{goal: &Cmp{F: "$nth", Args: []Term{nthRef{new(int64)}, args[1], Int(len(m.cps))}}, next: cont}}
		return true
	case "$nth/3":
		// one more answer of the goal: the count is not undone on backtracking
		cnt := args[0].(nthRef).n
		*cnt++
		if n, ok := Deref(args[1]).(Int); ok {
			if int64(n) != *cnt {
				return false
			}
			m.cutTo(int(args[2].(Int))) // the N-th answer is the last one asked for
			return true
		}
		return m.unify(args[1], Int(*cnt))
	case "findall/3":
		return m.findall(args[0], args[1], args[2])
	case "bagof/3":
		return m.bagof(args[0], args[1], args[2], false, cont)
	case "setof/3":
		return m.bagof(args[0], args[1], args[2], true, cont)
	case "phrase/2":
		m.phrase(args[0], args[1], Nil, cont)
		return true
	case "phrase/3":
		m.phrase(args[0], args[1], args[2], cont)
		return true
	case "$dcg/3":
		return m.dcg(args[0], args[1], args[2], fr.cutB, cont)
	case "repeat/0":
		m.pushGen(cont, func() bool { return true })
		return true
	}
	if bi, ok := builtins[Key(name, len(args))]; ok {
		return bi(m, args, cont)
	}
	// user-defined procedure
	p, ok := w.DB.Preds[Key(name, len(args))]
	if !ok && len(args) >= 2 && len(w.DB.Grammar[Key(name, len(args)-2)]) > 0 {
		// a non-terminal called as a predicate (call//N, or directly): its last two arguments are the lists
		var nt Term = Atom(name)
		if len(args) > 2 {
			nt = &Cmp{F: name, Args: args[:len(args)-2]}
		}
		return m.nonTerminal(nt, args[len(args)-2], args[len(args)-1], cont)
	}
	if !ok {
		if w.UnknownFail {
			return false
		}
		ExistErr("procedure", PI(name, len(args)))
	}
	if len(p.Clauses) == 0 {
		return false
	}
	c := &choice{kind: cpClauses, goal: goal, clauses: append([]*Clause{}, p.Clauses...), goals: cont}
	m.push(c)
	return m.tryClauses(c)
}

// catchRef smuggles a pointer through a term argument.
type catchRef struct{ c *choice }

// nthRef is the answer counter of one call_nth/2 activation.
type nthRef struct{ n *int64 }

func (m *Machine) ite(cond, then, els Term, cutB int, cont *frame) {
	m.push(&choice{kind: cpAlt, alt: &frame{goal: els, cutB: cutB, next: cont}})
	h := len(m.cps)
	m.goals = &frame{goal: cond, cutB: h, next: &frame{goal: C("$ite", Int(h-1)), next: &frame{goal: then, cutB: cutB, next: cont}}}
}

// pushGen installs a nondeterministic built-in: gen produces the next solution (binding through
// the trail) or returns false. The first solution is produced immediately.
func (m *Machine) pushGen(cont *frame, gen func() bool) bool {
	c := &choice{kind: cpGen, gen: gen, goals: cont}
	m.push(c)
	if gen() {
		return true
	}
	m.W.Trail.Undo(c.mark)
	m.removeChoice(c)
	return false
}

// tryAll turns a finite list of alternatives (each a function that unifies) into a generator.
func (m *Machine) tryAll(cont *frame, alts []func() bool) bool {
	i := 0
	return m.pushGen(cont, func() bool {
		for i < len(alts) {
			f := alts[i]
			i++
			mark := m.W.Trail.Mark()
			if f() {
				return true
			}
			m.W.Trail.Undo(mark)
		}
		return false
	})
}

func (m *Machine) unify(a, b Term) bool {
	mark := m.W.Trail.Mark()
	if Unify(a, b, &m.W.Trail) {
		return true
	}
	m.W.Trail.Undo(mark)
	return false
}

// sub runs goal to exhaustion in a sub-machine (sharing trail, database, output, budget) and
// calls each for every solution while its bindings are in place. An uncaught exception is
// re-thrown in the caller.
func (m *Machine) sub(goal Term, each func() bool) {
	sm := &Machine{W: m.W, first: true}
	sm.goals = &frame{goal: C("call", goal), cutB: 0}
	mark := m.W.Trail.Mark()
	for {
		ok, ball, err := sm.Next()
		if err != nil {
			panic(subError{err})
		}
		if ball != nil {
			m.W.Trail.Undo(mark)
			Throw(ball)
		}
		if !ok {
			break
		}
		if !each() {
			break
		}
	}
	m.W.Trail.Undo(mark)
}

func (m *Machine) findall(template, goal, instances Term) bool {
	checkPartialList(instances)
	var res []Term
	m.sub(goal, func() bool {
		res = append(res, Copy(template, map[*Var]*Var{}))
		return true
	})
	return m.unify(List(res...), instances)
}

func checkPartialList(t Term) {
	_, tail := ListSlice(t)
	switch x := Deref(tail).(type) {
	case *Var:
	case Atom:
		if x != Nil {
			TypeErr("list", t)
		}
	default:
		TypeErr("list", t)
	}
}

// FreeVars implements ISO 7.1.1.4: the free variables of goal^ with respect to template.
func FreeVars(template, goal Term) []*Var {
	bound := Vars(template, nil)
	g := Deref(goal)
	for {
		c, ok := g.(*Cmp)
		if !ok || c.F != "^" || len(c.Args) != 2 {
			break
		}
		bound = Vars(c.Args[0], bound)
		g = Deref(c.Args[1])
	}
	var free []*Var
outer:
	for _, v := range Vars(g, nil) {
		for _, b := range bound {
			if b == v {
				continue outer
			}
		}
		free = append(free, v)
	}
	return free
}

func stripCaret(goal Term) Term {
	g := Deref(goal)
	for {
		c, ok := g.(*Cmp)
		if !ok || c.F != "^" || len(c.Args) != 2 {
			return g
		}
		g = Deref(c.Args[1])
	}
}

func (m *Machine) bagof(template, goal, instances Term, set bool, cont *frame) bool {
	checkPartialList(instances)
	free := FreeVars(template, goal)
	fts := make([]Term, len(free))
	for i, v := range free {
		fts[i] = v
	}
	witness := &Cmp{F: "$w", Args: fts}
	g := stripCaret(goal)
	if _, ok := g.(*Var); ok {
		InstErr()
	}
	type sol struct{ w, t Term }
	var sols []sol
	m.sub(g, func() bool {
		c := Copy(C("-", witness, template), map[*Var]*Var{}).(*Cmp)
		sols = append(sols, sol{c.Args[0], c.Args[1]})
		return true
	})
	if len(sols) == 0 {
		return false
	}
	// partition into variant classes of the witness, in order of first occurrence
	type group struct {
		w  Term
		ts []Term
		ws []Term
	}
	var groups []*group
	used := make([]bool, len(sols))
	for i := range sols {
		if used[i] {
			continue
		}
		gr := &group{w: sols[i].w}
		for j := i; j < len(sols); j++ {
			if !used[j] && Variant(sols[i].w, sols[j].w) {
				used[j] = true
				gr.ts = append(gr.ts, sols[j].t)
				gr.ws = append(gr.ws, sols[j].w)
			}
		}
		groups = append(groups, gr)
	}
	if set {
		// ISO 8.10.3: groups are taken in the order of the sorted witness list. Group order is
		// not constrained by the property; callers compare groups as a multiset.
	}
	var alts []func() bool
	for _, gr := range groups {
		gr := gr
		alts = append(alts, func() bool {
			// unify all witnesses of the class with each other and with the free variables
			for _, wt := range gr.ws {
				if !Unify(wt, witness, &m.W.Trail) {
					return false
				}
			}
			ts := gr.ts
			if set {
				var hinges bool
				ts, hinges = SortUnique(ts)
				if hinges {
					Unsupported("setof/3 result depends on the order of distinct unbound variables")
				}
			}
			return Unify(List(ts...), instances, &m.W.Trail)
		})
	}
	return m.tryAll(cont, alts)
}

// ---------------------------------------------------------------------------------------------
// database

func (db *DB) pred(name string, arity int, create bool) *Pred {
	k := Key(name, arity)
	p, ok := db.Preds[k]
	if !ok && create {
		p = &Pred{Name: name, Arity: arity, Dynamic: true}
		db.Preds[k] = p
	}
	return p
}

// SplitClause checks and splits a clause term as assert does.
func SplitClause(t Term) (head, body Term) {
	t = Deref(t)
	if _, ok := t.(*Var); ok {
		InstErr()
	}
	head, body = t, Atom("true")
	if c, ok := t.(*Cmp); ok && c.F == ":-" && len(c.Args) == 2 {
		head, body = Deref(c.Args[0]), Deref(c.Args[1])
	}
	switch Deref(head).(type) {
	case *Var:
		InstErr()
	case Atom, *Cmp:
	default:
		TypeErr("callable", head)
	}
	b, ok := ToBody(body)
	if !ok {
		TypeErr("callable", body)
	}
	return head, b
}

// ControlOrBuiltin reports whether name/arity is a control construct or built-in of the reference.
func ControlOrBuiltin(name string, arity int) bool {
	k := Key(name, arity)
	if _, ok := builtins[k]; ok {
		return true
	}
	switch k {
	case "true/0", "fail/0", "false/0", "!/0", ",/2", ";/2", "->/2", "\\+/1", "once/1", "catch/3", "throw/1",
		"findall/3", "bagof/3", "setof/3", "repeat/0":
		return true
	}
	return name == "call" && arity >= 1 && arity <= 8
}

func (m *Machine) assert(t Term, front bool) bool {
	head, body := SplitClause(t)
	name, arity, _ := Indicator(head)
	if ControlOrBuiltin(name, arity) {
		PermErr("modify", "static_procedure", PI(name, arity))
	}
	p := m.W.DB.pred(name, arity, true)
	if !p.Dynamic {
		PermErr("modify", "static_procedure", PI(name, arity))
	}
	c := Copy(C(":-", head, body), map[*Var]*Var{}).(*Cmp)
	cl := &Clause{Head: c.Args[0], Body: c.Args[1]}
	if front {
		p.Clauses = append([]*Clause{cl}, p.Clauses...)
	} else {
		p.Clauses = append(append([]*Clause{}, p.Clauses...), cl)
	}
	return true
}

func (m *Machine) clauseOrRetract(head, body Term, retract bool, cont *frame) bool {
	head = Deref(head)
	switch head.(type) {
	case *Var:
		InstErr()
	case Atom, *Cmp:
	default:
		TypeErr("callable", head)
	}
	if !retract {
		switch Deref(body).(type) {
		case *Var, Atom, *Cmp:
		default:
			TypeErr("callable", body)
		}
	}
	name, arity, _ := Indicator(head)
	if ControlOrBuiltin(name, arity) {
		if retract {
			PermErr("modify", "static_procedure", PI(name, arity))
		}
		PermErr("access", "private_procedure", PI(name, arity))
	}
	p := m.W.DB.pred(name, arity, false)
	if p == nil {
		return false
	}
	if !p.Dynamic {
		if retract {
			PermErr("modify", "static_procedure", PI(name, arity))
		}
		PermErr("access", "private_procedure", PI(name, arity))
	}
	snapshot := append([]*Clause{}, p.Clauses...)
	i := 0
	return m.pushGen(cont, func() bool {
		for i < len(snapshot) {
			cl := snapshot[i]
			i++
			if retract && cl.Erased && m.W.RetractSkipsErased {
				continue
			}
			ren := map[*Var]*Var{}
			mark := m.W.Trail.Mark()
			if Unify(Copy(cl.Head, ren), head, &m.W.Trail) && Unify(Copy(cl.Body, ren), body, &m.W.Trail) {
				if retract {
					cl.Erased = true
					live := m.W.DB.pred(name, arity, false)
					if live != nil {
						out := make([]*Clause, 0, len(live.Clauses))
						for _, c := range live.Clauses {
							if c != cl {
								out = append(out, c)
							}
						}
						live.Clauses = out
					}
				}
				return true
			}
			m.W.Trail.Undo(mark)
		}
		return false
	})
}

func (m *Machine) abolish(pi Term) bool {
	pi = Deref(pi)
	if _, ok := pi.(*Var); ok {
		InstErr()
	}
	c, ok := pi.(*Cmp)
	if !ok || c.F != "/" || len(c.Args) != 2 {
		TypeErr("predicate_indicator", pi)
	}
	n, a := Deref(c.Args[0]), Deref(c.Args[1])
	if _, ok := n.(*Var); ok {
		InstErr()
	}
	if _, ok := a.(*Var); ok {
		InstErr()
	}
	na, ok := n.(Atom)
	if !ok {
		TypeErr("atom", n)
	}
	ai, ok := a.(Int)
	if !ok {
		TypeErr("integer", a)
	}
	if ai < 0 {
		DomErr("not_less_than_zero", a)
	}
	if ControlOrBuiltin(string(na), int(ai)) {
		PermErr("modify", "static_procedure", pi)
	}
	p := m.W.DB.pred(string(na), int(ai), false)
	if p == nil {
		if m.W.StrictDB {
			Unsupported("abolish of a procedure that does not exist")
		}
		return true
	}
	if !p.Dynamic {
		PermErr("modify", "static_procedure", pi)
	}
	for _, cl := range p.Clauses {
		cl.Erased = true
	}
	delete(m.W.DB.Preds, Key(string(na), int(ai)))
	return true
}

// AddClause adds a clause as the text loader does (static unless declared dynamic).
func (db *DB) AddClause(t Term, dynamic bool) {
	head, body := SplitClause(t)
	name, arity, _ := Indicator(head)
	p := db.pred(name, arity, false)
	if p == nil {
		p = &Pred{Name: name, Arity: arity, Dynamic: dynamic}
		db.Preds[Key(name, arity)] = p
	}
	c := Copy(C(":-", head, body), map[*Var]*Var{}).(*Cmp)
	p.Clauses = append(p.Clauses, &Clause{Head: c.Args[0], Body: c.Args[1]})
}

// Declare creates an empty predicate.
func (db *DB) Declare(name string, arity int, dynamic bool) {
	if p := db.pred(name, arity, false); p != nil {
		p.Dynamic = p.Dynamic || dynamic
		return
	}
	db.Preds[Key(name, arity)] = &Pred{Name: name, Arity: arity, Dynamic: dynamic}
}

// Listing returns the clauses of name/arity as canonical strings.
func (db *DB) Listing(name string, arity int) []string {
	p := db.pred(name, arity, false)
	if p == nil {
		return nil
	}
	var out []string
	for _, c := range p.Clauses {
		n := NewNamer()
		out = append(out, Canon(c.Head, n)+" :- "+Canon(c.Body, n))
	}
	return out
}

// ---------------------------------------------------------------------------------------------
// running a query to completion

type Result struct {
	Answers [][]Term // values of the requested variables per answer (resolved copies)
	Canon   []string
	Ball    Term  // uncaught exception (nil if none)
	Err     error // ErrBudget / ErrUnsupported: the answers so far are a valid prefix
	Out     string
}

// Run executes goal and records the values of vars for every answer (at most max, 0 = all).
func (w *World) Run(goal Term, vars []*Var, max int) Result {
	var r Result
	before := w.Out.Len()
	m := w.NewMachine(goal)
	for {
		ok, ball, err := m.Next()
		if err != nil {
			r.Err = err
			break
		}
		if ball != nil {
			r.Ball = Resolve(ball)
			break
		}
		if !ok {
			break
		}
		vals := make([]Term, len(vars))
		for i, v := range vars {
			vals[i] = NormErr(Resolve(v))
		}
		r.Answers = append(r.Answers, vals)
		r.Canon = append(r.Canon, CanonAnswer(vals))
		if max > 0 && len(r.Answers) >= max {
			break
		}
	}
	w.Trail.Undo(0)
	r.Out = w.Out.String()[before:]
	return r
}

// ---------------------------------------------------------------------------------------------
// grammar rules: a direct interpreter of grammar bodies over difference lists (ISO/IEC TS 13211-3
// semantics); nothing is translated.

// AddGrammar stores a grammar rule Head --> Body (Head may be (NT, PushBack)).
func (db *DB) AddGrammar(rule Term) {
	c := Deref(rule).(*Cmp)
	head, body := Deref(c.Args[0]), c.Args[1]
	var pb Term
	if h, ok := head.(*Cmp); ok && h.F == "," && len(h.Args) == 2 {
		head, pb = Deref(h.Args[0]), h.Args[1]
	}
	switch head.(type) {
	case *Var:
		InstErr()
	case Atom, *Cmp:
	default:
		TypeErr("callable", head)
	}
	name, arity, _ := Indicator(head)
	if db.Grammar == nil {
		db.Grammar = map[string][]*GRule{}
	}
	r := Copy(C("$r", head, orNil(pb), body), map[*Var]*Var{}).(*Cmp)
	g := &GRule{Head: r.Args[0], Body: r.Args[2]}
	if pb != nil {
		g.PB = r.Args[1]
	}
	k := Key(name, arity)
	db.Grammar[k] = append(db.Grammar[k], g)
}

func orNil(t Term) Term {
	if t == nil {
		return Atom("$none")
	}
	return t
}

func (m *Machine) phrase(body, s0, s Term, cont *frame) {
	b := Deref(body)
	switch b.(type) {
	case *Var:
		InstErr()
	case Atom, *Cmp:
	default:
		TypeErr("callable", b)
	}
	for _, l := range []Term{s0, s} {
		_, tail := ListSlice(l)
		switch x := Deref(tail).(type) {
		case *Var:
		case Atom:
			if x != Nil {
				TypeErr("list", l)
			}
		default:
			TypeErr("list", l)
		}
	}
	// opaque to cut, like call/N
	m.goals = &frame{goal: C("$dcg", b, s0, s), cutB: len(m.cps), next: cont}
}

// dcg interprets one grammar body between S0 and S.
func (m *Machine) dcg(body, s0, s Term, cutB int, cont *frame) bool {
	b := Deref(body)
	push := func(gs ...Term) bool {
		var f *frame = cont
		for i := len(gs) - 1; i >= 0; i-- {
			f = &frame{goal: gs[i], cutB: cutB, next: f}
		}
		m.goals = f
		return true
	}
	switch x := b.(type) {
	case *Var:
		// a variable body is phrase(V, S0, S) at run time
		return push(C("phrase", x, s0, s))
	case Atom:
		switch x {
		case Nil:
			return m.unify(s0, s)
		case "!":
			m.cutTo(cutB)
			return m.unify(s0, s)
		}
		return m.nonTerminal(x, s0, s, cont)
	case *Cmp:
		switch {
		case x.F == "." && len(x.Args) == 2:
			elems, tail := ListSlice(x)
			if Deref(tail) != Term(Nil) {
				TypeErr("list", x)
			}
			return m.unify(s0, PList(s, elems...))
		case x.F == "," && len(x.Args) == 2:
			mid := NewVar("")
			return push(C("$dcg", x.Args[0], s0, mid), C("$dcg", x.Args[1], mid, s))
		case (x.F == ";" || x.F == "|") && len(x.Args) == 2:
			if c, ok := Deref(x.Args[0]).(*Cmp); ok && c.F == "->" && len(c.Args) == 2 {
				mid := NewVar("")
				return push(C(";", C("->", C("$dcg", c.Args[0], s0, mid), C("$dcg", c.Args[1], mid, s)), C("$dcg", x.Args[1], s0, s)))
			}
			m.push(&choice{kind: cpAlt, alt: &frame{goal: C("$dcg", x.Args[1], s0, s), cutB: cutB, next: cont}})
			return push(C("$dcg", x.Args[0], s0, s))
		case x.F == "->" && len(x.Args) == 2:
			mid := NewVar("")
			return push(C("->", C("$dcg", x.Args[0], s0, mid), C("$dcg", x.Args[1], mid, s)))
		case x.F == "{}" && len(x.Args) == 1:
			return push(C("call", x.Args[0]), C("=", s0, s))
		case x.F == "\\+" && len(x.Args) == 1:
			return push(C("\\+", C("$dcg", x.Args[0], s0, NewVar(""))), C("=", s0, s))
		case x.F == "call" && len(x.Args) >= 1:
			return push(&Cmp{F: "call", Args: append(append([]Term{}, x.Args...), s0, s)})
		}
		return m.nonTerminal(x, s0, s, cont)
	}
	TypeErr("callable", b)
	return false
}

func (m *Machine) nonTerminal(nt Term, s0, s Term, cont *frame) bool {
	name, arity, _ := Indicator(nt)
	rules := m.W.DB.Grammar[Key(name, arity)]
	if len(rules) == 0 {
		// not a grammar rule: the predicate with two more arguments
		var args []Term
		if c, ok := nt.(*Cmp); ok {
			args = append(args, c.Args...)
		}
		m.goals = &frame{goal: &Cmp{F: name, Args: append(args, s0, s)}, cutB: len(m.cps), next: cont}
		return true
	}
	// one pseudo-clause per rule: '$nt'(Head, S0, S) :- '$dcg'(Body, S0, S1), S1 = PushBack ++ S
	var cls []*Clause
	for _, r := range rules {
		vs0, vs, mid := NewVar(""), NewVar(""), NewVar("")
		var body Term
		if r.PB == nil {
			body = C("$dcg", r.Body, vs0, vs)
		} else {
			elems, _ := ListSlice(r.PB)
			body = C(",", C("$dcg", r.Body, vs0, mid), C("=", vs, PList(mid, elems...)))
		}
		cls = append(cls, &Clause{Head: C("$nt", r.Head, vs0, vs), Body: body})
	}
	c := &choice{kind: cpClauses, goal: C("$nt", nt, s0, s), clauses: cls, goals: cont}
	m.push(c)
	return m.tryClauses(c)
}
