package ref

import (
	"fmt"
	"regexp"
	"sort"
	"strings"
	"testing"
)

// Self-checks of the reference machine against ISO 13211-1 examples (7.8.4, 7.8.9, 8.9, 8.10).

func ask(t *testing.T, program, query string) (answers []string, ball string, out string) {
	t.Helper()
	db := NewDB()
	for _, c := range MustReadAll(program) {
		if d, ok := c.(*Cmp); ok && d.F == ":-" && len(d.Args) == 1 {
			if dd, ok := d.Args[0].(*Cmp); ok && dd.F == "dynamic" {
				pi := dd.Args[0].(*Cmp)
				db.Declare(string(pi.Args[0].(Atom)), int(pi.Args[1].(Int)), true)
				continue
			}
		}
		db.AddClause(c, false)
	}
	w := NewWorld(db, 100000)
	vars := map[string]*Var{}
	g := MustRead(query, vars)
	var names []string
	for n := range vars {
		if !strings.HasPrefix(n, "_") {
			names = append(names, n)
		}
	}
	sort.Strings(names)
	vs := make([]*Var, len(names))
	for i, n := range names {
		vs[i] = vars[n]
	}
	r := w.Run(g, vs, 50)
	if r.Err != nil {
		t.Fatalf("%s: %v", query, r.Err)
	}
	for _, a := range r.Answers {
		n := NewNamer()
		var parts []string
		for i, v := range a {
			parts = append(parts, names[i]+"="+strings.ReplaceAll(Canon(v, n), "'", ""))
		}
		answers = append(answers, strings.Join(parts, ","))
	}
	if r.Ball != nil {
		ball = strings.ReplaceAll(Canon(r.Ball, NewNamer()), "'", "")
	}
	return answers, ball, r.Out
}

var gRe = regexp.MustCompile(`_G\d+`)

func renum(s string) string {
	m := map[string]string{}
	return gRe.ReplaceAllStringFunc(s, func(x string) string {
		if _, ok := m[x]; !ok {
			m[x] = fmt.Sprintf("_N%d", len(m))
		}
		return m[x]
	})
}

func expect(t *testing.T, program, query string, want string) {
	t.Helper()
	a, b, o := ask(t, program, query)
	got := strings.Join(a, " | ")
	if b != "" {
		got += " !" + b
	}
	if o != "" {
		got += " >" + o
	}
	if renum(got) != renum(want) {
		t.Errorf("%s\n  got  %s\n  want %s", query, got, want)
	}
}

const cutProg = `
twice(!) :- write('C ').
twice(true) :- write('Moss ').
goal((twice(_), !)).
goal(write('Three ')).
`

func TestCut(t *testing.T) {
	expect(t, cutProg, "!", "")
	expect(t, cutProg, "(!, fail ; true)", "")
	expect(t, cutProg, "(call(!), fail ; true)", "")
	expect(t, cutProg, "twice(_), !, write('Forwards '), fail", " >C Forwards ")
	expect(t, cutProg, "(! ; write('No ')), write('Cut disjunction '), fail", " >Cut disjunction ")
	expect(t, cutProg, "twice(_), (write('No ') ; !), write('Cut '), fail", " >C No Cut Cut ")
	expect(t, cutProg, "twice(_), (!, fail ; write('No '))", " >C ")
	expect(t, cutProg, "twice(X), call(X), write('Forwards '), fail", " >C Forwards Moss Forwards ")
	expect(t, cutProg, "goal(X), call(X), write('Forwards '), fail", " >C Forwards Three Forwards ")
	expect(t, cutProg, "twice(_), \\+(\\+(!)), write('Forwards '), fail", " >C Forwards Moss Forwards ")
	expect(t, cutProg, "twice(_), once(!), write('Forwards '), fail", " >C Forwards Moss Forwards ")
	expect(t, cutProg, "twice(_), call(!), write('Forwards '), fail", " >C Forwards Moss Forwards ")
}

const catchProg = `
foo(X) :- Y is X * 2, throw(test(Y)).
bar(X) :- X = Y, throw(Y).
coo(X) :- throw(X).
car(X) :- X = 1, throw(X).
g :- catch(p, _B, write(h2)), coo(c).
p.
p :- throw(b).
`

func TestCatchThrow(t *testing.T) {
	expect(t, catchProg, "catch(foo(5), test(Y), true)", "Y=10")
	expect(t, catchProg, "catch(bar(3), Z, true)", "Z=3")
	expect(t, catchProg, "catch(true, _, 3)", "")
	expect(t, catchProg, "catch(true, _C, write(demoen)), throw(bla)", " !bla")
	expect(t, catchProg, "catch(car(X), Y, true)", "X=_G0,Y=1")
	expect(t, catchProg, "catch(g, C, write(h1)), nl, fail", " >h1\n")
	expect(t, catchProg, "catch(coo(_X), Y, true)", "Y=error(instantiation_error,$ctx)")
	// re-activation by backtracking into the goal
	expect(t, catchProg, "catch(member(X, [1,2]), _, (write(caught), X = c)), X == 1, fail", "")
	expect(t, catchProg, "catch(member(X, [1,2]), _, true), throw(oops)", " !oops")
	expect(t, catchProg, "catch((member(X, [1,2]), X > 1, throw(f(X))), f(Y), true)", "X=_G0,Y=2")
	// bindings undone
	expect(t, catchProg, "catch((X = 1, throw(e)), e, true)", "X=_G0")
	// nested, non matching inner
	expect(t, catchProg, "catch(catch(throw(a), b, write(inner)), a, write(outer))", " >outer")
	// error in recovery goes outward
	expect(t, catchProg, "catch(catch(throw(a), a, throw(b)), b, write(ok))", " >ok")
	expect(t, catchProg, "catch(undefined_pred_xyz, error(existence_error(procedure, PI), _), true)", "PI=/(undefined_pred_xyz,0)")
}

const allProg = `
a(1, f(_)).
a(2, f(_)).
b(1, 1).
b(1, 1).
b(1, 2).
b(2, 1).
b(2, 2).
b(2, 2).
d(1, 1).
d(1, 2).
d(1, 1).
d(2, 2).
d(2, 1).
d(2, 2).
`

func TestAllSolutions(t *testing.T) {
	expect(t, allProg, "findall(X, (X=1 ; X=2), S)", "S=[1,2],X=_G1")
	expect(t, allProg, "findall(X+_Y, (X=1), S)", "S=[+(1,_G0)],X=_G1")
	expect(t, allProg, "findall(_X, fail, L)", "L=[]")
	expect(t, allProg, "findall(X, (X=1 ; X=1), S)", "S=[1,1],X=_G1")
	expect(t, allProg, "findall(X, (X=2 ; X=1), [1,2])", "")
	expect(t, allProg, "findall(X, (X=1 ; X=2), [X,Y])", "X=1,Y=2")
	expect(t, allProg, "findall(_X, _Goal, _S)", " !error(instantiation_error,_G0)")
	expect(t, allProg, "findall(_X, 4, _S)", " !error(type_error(callable,4),_G0)")
	expect(t, allProg, "bagof(X, (X=1 ; X=2), S)", "S=[1,2],X=_G1")
	expect(t, allProg, "bagof(X, (X=1 ; X=2), X)", "X=[1,2]")
	expect(t, allProg, "bagof(X, (X=Y ; X=Z), S)", "S=[_G0,_G1],X=_G2,Y=_G0,Z=_G1")
	expect(t, allProg, "bagof(_X, fail, _S)", "")
	expect(t, allProg, "bagof(1, (Y=1 ; Y=2), L)", "L=[1],Y=1 | L=[1],Y=2")
	expect(t, allProg, "bagof(f(X,Y), (X=a ; Y=b), L)", "L=[f(a,_G0),f(_G1,b)],X=_G2,Y=_G3")
	expect(t, allProg, "bagof(X, Y^((X=1, Y=1) ; (X=2, Y=2)), S)", "S=[1,2],X=_G1,Y=_G2")
	expect(t, allProg, "bagof(X, Y^((X=1 ; Y=1) ; (X=2, Y=2)), S)", "S=[1,_G0,2],X=_G1,Y=_G2")
	expect(t, allProg, "bagof(X, (X=Y ; X=Z ; Y=1), S)", "S=[_G0,_G1],X=_G2,Y=_G0,Z=_G1 | S=[_G0],X=_G1,Y=1,Z=_G2")
	expect(t, allProg, "bagof(X, a(X, Y), L)", "L=[1,2],X=_G1,Y=f(_G2)")
	expect(t, allProg, "bagof(X, b(X, Y), L)", "L=[1,1,2],X=_G1,Y=1 | L=[1,2,2],X=_G1,Y=2")
	expect(t, allProg, "setof(X, (X=2 ; X=1), S)", "S=[1,2],X=_G1")
	expect(t, allProg, "setof(X, (X=2 ; X=2), S)", "S=[2],X=_G1")
	expect(t, allProg, "setof(X, fail, S)", "")
	expect(t, allProg, "setof(1, (Y=2 ; Y=1), L)", "L=[1],Y=2 | L=[1],Y=1")
	expect(t, allProg, "setof(f(X,Y), (X=a ; Y=b), L)", "L=[f(_G0,b),f(a,_G1)],X=_G2,Y=_G3")
	expect(t, allProg, "setof(X, Y^((X=1, Y=1) ; (X=2, Y=2)), S)", "S=[1,2],X=_G1,Y=_G2")
	expect(t, allProg, "setof(X, d(X, Y), L)", "L=[1,2],X=_G1,Y=1 | L=[1,2],X=_G1,Y=2")
	expect(t, allProg, "setof(X-Xs, Y^setof(Y, d(X, Y), Xs), L)", "L=[-(1,[1,2]),-(2,[1,2])],X=_G4,Xs=_G5,Y=_G6")
}

const dbProg = `
:- dynamic(legs/2).
legs(A, 6) :- insect(A).
legs(A, 7) :- A, call(A).
:- dynamic(insect/1).
insect(ant).
insect(bee).
:- dynamic(foo/1).
foo(X) :- call(X), call(X).
foo(X) :- call(X) -> call(X).
elk(X) :- moose(X).
`

func TestDatabase(t *testing.T) {
	expect(t, dbProg, "clause(insect(I), T)", "I=ant,T=true | I=bee,T=true")
	expect(t, dbProg, "clause(legs(I, 6), Body)", "Body=insect(_G0),I=_G0")
	expect(t, dbProg, "clause(x, Body)", "")
	expect(t, dbProg, "clause(_, B)", " !error(instantiation_error,_G0)")
	expect(t, dbProg, "clause(4, X)", " !error(type_error(callable,4),_G0)")
	expect(t, dbProg, "clause(elk(N), Body)", " !error(permission_error(access,private_procedure,/(elk,1)),_G0)")
	expect(t, dbProg, "clause(atom(_), Body)", " !error(permission_error(access,private_procedure,/(atom,1)),_G0)")
	expect(t, dbProg, "asserta(legs(octopus, 8)), clause(legs(X, 8), B)", "B=true,X=octopus")
	expect(t, dbProg, "asserta((legs(A, 4) :- animal(A))), findall(N, clause(legs(_, N), _), L)", "A=_G0,L=[4,6,7],N=_G2")
	expect(t, dbProg, "asserta((foo(X) :- X, call(X))), clause(foo(Y), B)", "B=,(call(_G0),call(_G0)),X=_G1,Y=_G0 | B=,(call(_G0),call(_G0)),X=_G1,Y=_G0 | B=->(call(_G0),call(_G0)),X=_G1,Y=_G0")
	expect(t, dbProg, "asserta(_)", " !error(instantiation_error,_G0)")
	expect(t, dbProg, "asserta(4)", " !error(type_error(callable,4),_G0)")
	expect(t, dbProg, "asserta((foo :- 4))", " !error(type_error(callable,4),_G0)")
	expect(t, dbProg, "asserta((atom(_) :- true))", " !error(permission_error(modify,static_procedure,/(atom,1)),_G0)")
	expect(t, dbProg, "assertz((foo(X) :- X -> call(X))), findall(B, clause(foo(_), B), L), length(L, N)", "B=_G0,L=[,(call(_G1),call(_G1)),->(call(_G2),call(_G2)),->(call(_G3),call(_G3))],N=3,X=_G4")
	expect(t, dbProg, "retract(legs(octopus, 8))", "")
	expect(t, dbProg, "retract((legs(X, Y) :- Z)), fail ; findall(N, clause(legs(_, N), _), L)", "L=[],N=_G1,X=_G2,Y=_G3,Z=_G4")
	// logical update view: 8.9.3.4 retract((foo(A) :- A, call(A))) style
	expect(t, dbProg, "retract(insect(I)), write(I), retract(insect(bee)), fail ; true", "I=_G0 >antbee")
	expect(t, dbProg, "insect(X), write(X), assertz(insect(wasp)), fail ; findall(Y, insect(Y), L)", "L=[ant,bee,wasp,wasp],X=_G1,Y=_G2 >antbee")
	expect(t, dbProg, "insect(X), write(X), retract(insect(bee)), fail ; findall(Y, insect(Y), L)", "L=[ant],X=_G1,Y=_G2 >antbee")
	expect(t, dbProg, "abolish(foo/1), catch(foo(true), error(E, _), true)", "E=existence_error(procedure,/(foo,1))")
	expect(t, dbProg, "abolish(elk/1)", " !error(permission_error(modify,static_procedure,/(elk,1)),_G0)")
	expect(t, dbProg, "abolish(foo/a)", " !error(type_error(integer,a),_G0)")
	expect(t, dbProg, "retractall(insect(bee)), findall(Y, insect(Y), L)", "L=[ant],Y=_G1")
}

func TestControl(t *testing.T) {
	p := "p(1). p(2). p(3). q(2). q(3)."
	expect(t, p, "p(X), q(X)", "X=2 | X=3")
	expect(t, p, "(p(X) -> true ; X = none)", "X=1")
	expect(t, p, "(fail -> true ; X = none)", "X=none")
	expect(t, p, "(p(X), X > 1 -> Y = X ; Y = none)", "X=2,Y=2")
	expect(t, p, "\\+ p(4)", "")
	expect(t, p, "\\+ p(1)", "")
	expect(t, p, "once(p(X))", "X=1")
	expect(t, p, "call(p, X), X >= 2", "X=2 | X=3")
	expect(t, p, "G = p(X), call(G)", "G=p(1),X=1 | G=p(2),X=2 | G=p(3),X=3")
	expect(t, p, "call((p(X), !))", "X=1")
	expect(t, p, "call((fail, 1))", " !error(type_error(callable,,(fail,1)),_G0)")
	expect(t, p, "between(1, 3, X), Y is X * X", "X=1,Y=1 | X=2,Y=4 | X=3,Y=9")
	expect(t, p, "append(X, Y, [a,b])", "X=[],Y=[a,b] | X=[a],Y=[b] | X=[a,b],Y=[]")
	expect(t, p, "length(L, N), N >= 2, !", "L=[_G0,_G1],N=2")
	expect(t, p, "X = f(A, B, A), copy_term(X, Y)", "A=_G0,B=_G1,X=f(_G0,_G1,_G0),Y=f(_G2,_G3,_G2)")
	expect(t, p, "f(a, B) =.. L", "B=_G0,L=[f,a,_G0]")
	expect(t, p, "functor(T, foo, 2), arg(1, T, x)", "T=foo(x,_G0)")
	expect(t, p, "undefined_thing", " !error(existence_error(procedure,/(undefined_thing,0)),_G0)")
	expect(t, p, "X is foo + 1", " !error(type_error(evaluable,/(foo,0)),_G0)")
}
