// Command vrewrite prepares the build overlay of the scheduler-controlled flavour: it rewrites
// (copies of) the files of the module under test that contain channel operations, go statements,
// or import sync / sync/atomic so that those operations go through the vsync shim, adds the shim as
// a virtual package of the module and adds the read-only accessor file. /repo itself is not touched.
// It fails loudly (exit 2) on a construct it does not know.
package main

import (
	"bytes"
	"encoding/json"
	"flag"
	"fmt"
	"go/ast"
	"go/format"
	"go/parser"
	"go/token"
	"os"
	"path/filepath"
	"strings"

	"golang.org/x/tools/go/ast/astutil"
)

const shimPath = "github.com/ichiban/prolog/verifshim/vsync"

func fail(format string, a ...interface{}) {
	fmt.Fprintf(os.Stderr, "vrewrite: "+format+"\n", a...)
	os.Exit(2)
}

func main() {
	repo := flag.String("repo", "/repo", "module under test")
	shim := flag.String("shim", "/verif/shim", "shim sources")
	inject := flag.String("inject", "/verif/inject", "files added to package engine")
	out := flag.String("out", "", "output directory")
	flag.Parse()
	if *out == "" {
		fail("-out required")
	}
	overlay := map[string]string{}
	nrewrites := 0
	for _, dir := range []string{*repo, filepath.Join(*repo, "engine")} {
		ents, err := os.ReadDir(dir)
		if err != nil {
			fail("%v", err)
		}
		for _, e := range ents {
			name := e.Name()
			if e.IsDir() || !strings.HasSuffix(name, ".go") || strings.HasSuffix(name, "_test.go") {
				continue
			}
			path := filepath.Join(dir, name)
			src, err := os.ReadFile(path)
			if err != nil {
				fail("%v", err)
			}
			res, n, err := rewrite(path, src)
			if err != nil {
				fail("%s: %v", path, err)
			}
			if n == 0 {
				continue
			}
			nrewrites += n
			dst := filepath.Join(*out, strings.ReplaceAll(strings.TrimPrefix(path, *repo+"/"), "/", "__"))
			if err := os.WriteFile(dst, res, 0o644); err != nil {
				fail("%v", err)
			}
			overlay[path] = dst
		}
	}
	ents, _ := os.ReadDir(filepath.Join(*shim, "vsync"))
	for _, e := range ents {
		if strings.HasSuffix(e.Name(), ".go") {
			overlay[filepath.Join(*repo, "verifshim", "vsync", e.Name())] = filepath.Join(*shim, "vsync", e.Name())
		}
	}
	ents, _ = os.ReadDir(*inject)
	for _, e := range ents {
		if strings.HasSuffix(e.Name(), ".go") {
			overlay[filepath.Join(*repo, "engine", e.Name())] = filepath.Join(*inject, e.Name())
		}
	}
	b, _ := json.MarshalIndent(map[string]interface{}{"Replace": overlay}, "", " ")
	if err := os.WriteFile(filepath.Join(*out, "overlay.json"), b, 0o644); err != nil {
		fail("%v", err)
	}
	fmt.Fprintf(os.Stderr, "vrewrite: %d rewrites in %d files\n", nrewrites, len(overlay))
}

func sel(x, name string) ast.Expr {
	return &ast.SelectorExpr{X: ast.NewIdent(x), Sel: ast.NewIdent(name)}
}

func chanTypeOf(elem ast.Expr) ast.Expr {
	return &ast.StarExpr{X: &ast.IndexExpr{X: sel("vsync", "Chan"), Index: elem}}
}

func rewrite(path string, src []byte) ([]byte, int, error) {
	fset := token.NewFileSet()
	f, err := parser.ParseFile(fset, path, src, parser.ParseComments)
	if err != nil {
		return nil, 0, err
	}
	n := 0
	// 1. imports of sync / sync/atomic
	for _, imp := range f.Imports {
		switch imp.Path.Value {
		case `"sync"`:
			if imp.Name != nil && imp.Name.Name != "sync" {
				return nil, 0, fmt.Errorf("renamed import of sync")
			}
			imp.Path.Value = `"` + shimPath + `"`
			imp.Name = ast.NewIdent("sync")
			n++
		case `"sync/atomic"`:
			if imp.Name != nil && imp.Name.Name != "atomic" {
				return nil, 0, fmt.Errorf("renamed import of sync/atomic")
			}
			imp.Path.Value = `"` + shimPath + `"`
			imp.Name = ast.NewIdent("atomic")
			n++
		}
	}
	// 2. channel constructs
	hasChan := false
	ast.Inspect(f, func(nd ast.Node) bool {
		switch nd.(type) {
		case *ast.ChanType, *ast.GoStmt, *ast.SendStmt:
			hasChan = true
		}
		return true
	})
	if hasChan {
		var rerr error
		usedShim := false
		// names of struct fields, variables and parameters declared with a channel type in this file
		chanNames := map[string]bool{}
		ast.Inspect(f, func(nd ast.Node) bool {
			switch x := nd.(type) {
			case *ast.Field:
				if _, ok := x.Type.(*ast.ChanType); ok {
					for _, nm := range x.Names {
						chanNames[nm.Name] = true
					}
				}
			case *ast.ValueSpec:
				if _, ok := x.Type.(*ast.ChanType); ok {
					for _, nm := range x.Names {
						chanNames[nm.Name] = true
					}
				}
			}
			return true
		})
		isChanExpr := func(e ast.Expr) bool {
			switch x := e.(type) {
			case *ast.Ident:
				return chanNames[x.Name]
			case *ast.SelectorExpr:
				return chanNames[x.Sel.Name]
			}
			return false
		}
		astutil.Apply(f, nil, func(c *astutil.Cursor) bool {
			switch x := c.Node().(type) {
			case *ast.SelectStmt:
				rerr = fmt.Errorf("%s: select statement in a file with channel operations is not supported", fset.Position(x.Pos()))
			case *ast.RangeStmt:
				// 'for range ch { body }' over a field/variable declared with a channel type in this file
				// becomes 'for { if _, ok := ch.Recv2(); !ok { break }; body }'
				if isChanExpr(x.X) {
					if x.Key != nil || x.Value != nil {
						rerr = fmt.Errorf("%s: range over a channel with a loop variable is not supported", fset.Position(x.Pos()))
						return true
					}
					recv := &ast.IfStmt{
						Init: &ast.AssignStmt{Lhs: []ast.Expr{ast.NewIdent("_"), ast.NewIdent("ok")}, Tok: token.DEFINE,
							Rhs: []ast.Expr{&ast.CallExpr{Fun: &ast.SelectorExpr{X: x.X, Sel: ast.NewIdent("Recv2")}}}},
						Cond: &ast.UnaryExpr{Op: token.NOT, X: ast.NewIdent("ok")},
						Body: &ast.BlockStmt{List: []ast.Stmt{&ast.BranchStmt{Tok: token.BREAK}}},
					}
					c.Replace(&ast.ForStmt{Body: &ast.BlockStmt{List: append([]ast.Stmt{recv}, x.Body.List...)}})
					n++
				}
			case *ast.ChanType:
				c.Replace(chanTypeOf(x.Value))
				usedShim = true
				n++
			case *ast.CallExpr:
				if id, ok := x.Fun.(*ast.Ident); ok {
					switch id.Name {
					case "make":
						if len(x.Args) >= 1 {
							if st, ok := x.Args[0].(*ast.StarExpr); ok {
								if ix, ok := st.X.(*ast.IndexExpr); ok {
									if s, ok := ix.X.(*ast.SelectorExpr); ok && s.Sel.Name == "Chan" {
										var size ast.Expr = &ast.BasicLit{Kind: token.INT, Value: "0"}
										if len(x.Args) == 2 {
											size = x.Args[1]
										}
										c.Replace(&ast.CallExpr{Fun: &ast.IndexExpr{X: sel("vsync", "MakeChan"), Index: ix.Index}, Args: []ast.Expr{size}})
										n++
									}
								}
							}
						}
					case "close":
						if len(x.Args) == 1 {
							c.Replace(&ast.CallExpr{Fun: &ast.SelectorExpr{X: x.Args[0], Sel: ast.NewIdent("Close")}})
							n++
						}
					case "len", "cap":
						// not used on channels in this code base
					}
				}
			case *ast.SendStmt:
				c.Replace(&ast.ExprStmt{X: &ast.CallExpr{Fun: &ast.SelectorExpr{X: x.Chan, Sel: ast.NewIdent("Send")}, Args: []ast.Expr{x.Value}}})
				n++
			case *ast.UnaryExpr:
				if x.Op == token.ARROW {
					if _, isCall := x.X.(*ast.CallExpr); isCall {
						return true // e.g. <-ctx.Done(): a real channel from outside the module
					}
					method := "Recv"
					if as, ok := c.Parent().(*ast.AssignStmt); ok && len(as.Lhs) == 2 && len(as.Rhs) == 1 {
						method = "Recv2"
					}
					if vs, ok := c.Parent().(*ast.ValueSpec); ok && len(vs.Names) == 2 && len(vs.Values) == 1 {
						method = "Recv2"
					}
					c.Replace(&ast.CallExpr{Fun: &ast.SelectorExpr{X: x.X, Sel: ast.NewIdent(method)}})
					n++
				}
			case *ast.GoStmt:
				fl, ok := x.Call.Fun.(*ast.FuncLit)
				if !ok || len(x.Call.Args) != 0 {
					rerr = fmt.Errorf("%s: go statement that is not 'go func() {...}()'", fset.Position(x.Pos()))
					return true
				}
				c.Replace(&ast.ExprStmt{X: &ast.CallExpr{Fun: sel("vsync", "Go"), Args: []ast.Expr{fl}}})
				usedShim = true
				n++
			}
			return true
		})
		if rerr != nil {
			return nil, 0, rerr
		}
		if usedShim {
			astutil.AddNamedImport(fset, f, "vsync", shimPath)
		}
	}
	if n == 0 {
		return nil, 0, nil
	}
	var buf bytes.Buffer
	if err := format.Node(&buf, fset, f); err != nil {
		return nil, 0, err
	}
	return buf.Bytes(), n, nil
}
