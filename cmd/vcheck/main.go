// Command vcheck is the single driver of all checks: vcheck <id> quick|thorough, vcheck replay <file>.
package main

import (
	"runtime/debug"

	_ "verif/checks"
	"verif/h"
)

func main() {
	debug.SetMaxStack(256 << 20)
	h.Main()
}
