#!/bin/bash
# usage: seedverify.sh <dir-with-patch.diff-and-demo>   (verifies a seeded change in a scratch worktree)
# 1. suite passes with the patch  2. demo fails with the patch  3. demo passes without it
set -u
D=$(realpath "$1")
export GOFLAGS=-mod=mod GOPROXY=off GOSUMDB=off GOTOOLCHAIN=local
WT=/tmp/seedv.$$
git -C /repo worktree add -q --detach "$WT" HEAD || exit 2
trap 'git -C /repo worktree remove --force "$WT" >/dev/null 2>&1' EXIT
cd "$WT"
git apply "$D/patch.diff" || { echo "RESULT: patch does not apply"; exit 1; }
go build ./... || { echo "RESULT: does not build"; exit 1; }
/verif/tools/suite.sh "$WT" | tail -3
suite=$?
# install demo files
for f in "$D"/*_test.go; do
  [ -e "$f" ] || continue
  pkg=$(grep -m1 '^package ' "$f" | awk '{print $2}')
  case "$pkg" in engine|engine_test) cp "$f" engine/zz_$(basename "$f");; *) cp "$f" ./zz_$(basename "$f");; esac
done
demo_with=$(go test -vet=off -count=1 -run "${DEMO_RUN:-.}" $(ls zz_*_test.go >/dev/null 2>&1 && echo .) $(ls engine/zz_*_test.go >/dev/null 2>&1 && echo ./engine) 2>&1 | grep -E "^(--- FAIL|FAIL|ok|panic)" | grep -v TestOpen | head -8)
git apply -R "$D/patch.diff"
demo_without=$(go test -vet=off -count=1 -run "${DEMO_RUN:-.}" $(ls zz_*_test.go >/dev/null 2>&1 && echo .) $(ls engine/zz_*_test.go >/dev/null 2>&1 && echo ./engine) 2>&1 | grep -E "^(--- FAIL|FAIL|ok|panic)" | grep -v TestOpen | head -8)
echo "--- demo WITH patch:"; echo "$demo_with"
echo "--- demo WITHOUT patch:"; echo "$demo_without"
echo "RESULT: suite_rc=$suite"
