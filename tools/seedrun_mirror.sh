#!/bin/bash
# usage: seedrun_mirror.sh <patch.diff> <check-id> [tier]
# Like seedrun.sh, but on a scratch mirror of /repo and /verif (see seedall_mirror.sh), so that /repo stays
# untouched while other runs are building from it. The mirror ($M, default /tmp/sr.$$) is removed at the end.
P=$1; [ "$P" != none ] && P=$(realpath "$1"); ID=$2; TIER=${3:-quick}   # <patch> may be 'none' (clean mirror run)
M=${M:-/tmp/sr.$$}
rm -rf "$M"; mkdir -p "$M"
git clone -q /repo "$M/repo" || exit 2
git -C /repo diff | git -C "$M/repo" apply 2>/dev/null   # carry over uncommitted changes of /repo, if any
rsync -a --exclude .build --exclude replays --exclude evidence --exclude .git /verif/ "$M/verif/"
cd "$M/verif" || exit 2
grep -rlE '/verif|/repo' --include='*.go' --include=vcheck --include=go.mod --include='*.sh' . | while read -r f; do
  sed -i -E "s#/verif([^a-z]|\$)#$M/verif\\1#g; s#\"/repo\"#\"$M/repo\"#g; s#=> /repo#=> $M/repo#g; s# /repo # $M/repo #g; s#/repo/engine#$M/repo/engine#g; s#-repo /repo#-repo $M/repo#g" "$f"
done
[ "$P" = none ] || git -C "$M/repo" apply "$P" || { echo "patch does not apply"; cd /; rm -rf "$M"; exit 2; }
./vcheck "$ID" "$TIER" 2>&1 | grep -E "^(VIOLATION|KNOWN|HARNESS|UNCONF|C[0-9]+ )|signature" | head -${LINES_MAX:-12}
rc=${PIPESTATUS[0]}
cd /; rm -rf "$M"
echo "check_rc=$rc"
