#!/bin/bash
# Seed regression on a scratch MIRROR of /repo and /verif (so that /repo and /verif stay free for work):
# copies both under $M (default /tmp/sa), rewrites the absolute paths, then for each seeded change applies
# the patch to the mirror repo, runs the quick tier of its check in the mirror harness, and reverts.
# Output: one line per seed. The mirror is removed at the end. Not a registered command.
M=${M:-/tmp/sa}
rm -rf "$M"; mkdir -p "$M"
git clone -q /repo "$M/repo" || exit 2
rsync -a --exclude .build --exclude replays --exclude evidence --exclude .git /verif/ "$M/verif/"
cd "$M/verif" || exit 2
grep -rlE '/verif|/repo' --include='*.go' --include=vcheck --include=go.mod --include='*.sh' . | while read -r f; do
  sed -i -E "s#/verif([^a-z]|\$)#$M/verif\\1#g; s#\"/repo\"#\"$M/repo\"#g; s#=> /repo#=> $M/repo#g; s# /repo # $M/repo #g; s#/repo/engine#$M/repo/engine#g; s#-repo /repo#-repo $M/repo#g" "$f"
done
cp "$M/repo/go.sum" . 2>/dev/null
only="${1:-}"
bad=0
for d in seeded/C*; do
  id=$(basename "$d")
  [ -n "$only" ] && [[ "$id" != $only ]] && continue
  prop=${id%-*}
  checks=$(python3 -c "import json;print(' '.join(json.load(open('$d/meta.json'))['detected_by'][:1]))")
  [ -z "$checks" ] && checks=$prop
  if ! git -C "$M/repo" apply --check "$PWD/$d/patch.diff" 2>/dev/null; then echo "$id: PATCH DOES NOT APPLY"; bad=1; continue; fi
  git -C "$M/repo" apply "$PWD/$d/patch.diff"
  res=""
  for c in $checks; do
    out=$(timeout 1500 ./vcheck "$c" quick 2>&1); rc=$?
    n=$(echo "$out" | grep -c '^VIOLATION')
    res="$res $c:rc=$rc,violations=$n"
    [ $rc -ne 1 ] && bad=1
  done
  git -C "$M/repo" checkout -- . ; git -C "$M/repo" clean -fdq
  echo "$id:$res"
done
cd /; rm -rf "$M"
exit $bad
