#!/usr/bin/env python3
"""Regenerates the generated tables of DESIGN.md section 7 (fix table from known_findings.json + git log of /repo,
seeded-change table from seeded/*/meta.json). Tables are delimited by the header row and the next blank line."""
import json, os, re, subprocess, sys
root = "/verif"
design = open(f"{root}/DESIGN.md").read()

def replace_table(text, header, rows):
    i = text.index(header)
    j = text.index("\n\n", i)
    head_end = text.index("\n", text.index("\n", i) + 1)  # header + separator row
    return text[:head_end + 1] + "\n".join(rows) + text[j:]

# fixes, in commit order
log = subprocess.run(["git", "-C", "/repo", "log", "--reverse", "--format=%h %s"], capture_output=True, text=True).stdout.splitlines()
kf = json.load(open(f"{root}/known_findings.json"))["findings"]
prop_of = {f["commit"]: f["property"] for f in kf if f.get("status") == "fixed"}
rows = []
for l in log:
    h, msg = l.split(" ", 1)
    if not msg.startswith("fix:"):
        continue
    p = prop_of.get(h) or next((v for k, v in prop_of.items() if h.startswith(k) or k.startswith(h)), "?")
    rows.append(f"| `{h}` | {p} | {msg[4:].strip()} |")
design = replace_table(design, "| commit | property | defect |", rows)

def clip(s, n):
    s = " ".join(str(s).split()).replace("|", "/")
    return s if len(s) <= n else s[:n - 1] + "…"
rows = []
for d in sorted(os.listdir(f"{root}/seeded")):
    mp = f"{root}/seeded/{d}/meta.json"
    if not os.path.exists(mp):
        continue
    m = json.load(open(mp))
    rows.append(f"| {d} | {clip(m.get('summary',''), 150)} | {', '.join(m.get('detected_by', []))} | {clip(m.get('detection_note',''), 190)} |")
design = replace_table(design, "| seed | change | caught by | how / what it took |", rows)
# rules of the checks, from the evidence files
import glob
parts = []
for f in sorted(glob.glob(f"{root}/evidence/C??.json")):
    e = json.load(open(f))
    rule = e.get("coverage", {}).get("rule", "")
    parts.append(f"**{e['property_id']}** — {rule}\n")
b, e_ = design.index("<!-- RULES-BEGIN -->") + len("<!-- RULES-BEGIN -->"), design.index("<!-- RULES-END -->")
design = design[:b] + "\n" + "\n".join(parts) + design[e_:]
open(f"{root}/DESIGN.md", "w").write(design)
print("fix rows:", sum(1 for l in log if " fix:" in l), "seed rows:", len(rows))
