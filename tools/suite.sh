#!/bin/bash
# Runs the repository's own suite (guard off: no build tag, no overlay) in DIR (default /repo) and
# compares with the stable_pass list of /root/.vp/BASELINE.json. Exit 0 iff every stable test passes.
DIR=${1:-/repo}
export GOFLAGS=-mod=mod GOPROXY=off GOSUMDB=off GOTOOLCHAIN=local
cd "$DIR" || exit 2
out=$(mktemp)
go test -json -vet=off -count=1 -timeout 25m ./... > "$out" 2>/dev/null
python3 - "$out" <<'PY'
import json,sys
res={}
for l in open(sys.argv[1]):
    try: e=json.loads(l)
    except: continue
    if e.get('Action') in('pass','fail','skip') and e.get('Test'):
        res[e['Package']+'::'+e['Test']]=e['Action']
base=json.load(open('/root/.vp/BASELINE.json'))
bad=[t for t in base['stable_pass'] if res.get(t)!='pass']
print(f"suite: {sum(1 for v in res.values() if v=='pass')} passed, {sum(1 for v in res.values() if v=='fail')} failed; stable_pass not passing: {len(bad)}")
for t in bad[:20]: print("  NOT PASSING:",t,res.get(t))
sys.exit(1 if bad else 0)
PY
rc=$?
rm -f "$out"
exit $rc
