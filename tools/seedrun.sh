#!/bin/bash
# usage: seedrun.sh <patch.diff> <check-id> [tier]   (applies the patch to /repo, runs the check, reverts)
set -u
P=$(realpath "$1"); ID=$2; TIER=${3:-quick}
cd /repo && git diff --quiet || { echo "/repo is dirty"; exit 2; }
git apply "$P" || { echo "patch does not apply"; exit 2; }
cd /verif && ./vcheck "$ID" "$TIER" 2>&1 | grep -E "^(VIOLATION|KNOWN|HARNESS|C[0-9]+ )|signature" | head -${LINES_MAX:-12}
rc=${PIPESTATUS[0]}
git -C /repo checkout -- . ; git -C /repo clean -fdq
echo "check_rc=$rc"
