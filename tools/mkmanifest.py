#!/usr/bin/env python3
"""Generates /verif/MANIFEST.json from the table below (kept in one place so that it stays valid)."""
import json, subprocess

CHECKS = {
 "C01": dict(
  technique="bounded-exhaustive enumeration of programs (all clause sequences up to a length bound over a clause menu, all head/argument term pairs up to depth 2, all bodies up to a length bound over call/N and control wrappers, all constructions of a list from nested partial lists, a sweep of the head size 0..34/70 against top-level disjunctive bodies) executed on the real interpreter; answer sequences compared with an independent reference SLD machine; sweeps of the number of clauses per predicate and of discontiguous clause runs",
  text="Every program of the enumerated families is loaded into a fresh real interpreter and every query is run to exhaustion; the complete answer sequence (structurally captured, up to variable renaming), the terminal status, the error term and the output are compared with a textbook goal-stack/choice-point reference machine that shares no design with the promise/continuation VM. Exhaustive within the stated size bounds, smallest first.",
  note="Trusted: the reference machine ref/solve (self-checked against the ISO examples) and the harness printer; programs beyond the size bounds or outside the signature are not covered; cases on which the reference exceeds its step budget are compared on the answer prefix only.",
  design="DESIGN.md §3 C01"),
 "C02": dict(
  technique="bounded-exhaustive enumeration of term pairs and of list construction recipes on the real interpreter against a reference Robinson unifier; exhaustive enumeration of binding orders on the real persistent environment against a Go map; asserted heads built by every recipe; one atom through every pair of 9 routes over every Unicode category; occurs check across choice points with controlled variable numbering",
  text="All ordered pairs of terms up to the depth bound are unified both ways through =/2, unify_with_occurs_check/2, subsumes_term/2 and clause heads; success, the answer substitution up to renaming (hence most-generality), identity afterwards and the absence of bindings after failure are compared with the reference. Every abstract list up to the length bound is built through 13 constructor paths and every pair of constructions is unified and compared, also against each literal notation in a clause head. Every insertion order of up to 7/8 variables into the environment is applied and every earlier version re-checked (persistence).",
  note="Trusted: ref/unify and the conservative STO detector (pairs subject to occurs check are skipped for =/2, as ISO leaves them undefined).",
  design="DESIGN.md §3 C02"),
 "C03": dict(
  technique="bounded-exhaustive enumeration of control skeletons (all clause bodies up to a length bound over 46 item shapes incl. every opaque wrapper (call/N, \\+, once, findall, bagof, setof, catch, call_nth), x clause layouts x 14 calling contexts, plus a sweep of the recursion depth between call and cut) on the real interpreter; answer sequence and execution trace compared with an ISO reference machine",
  text="Every skeleton is loaded into a fresh real interpreter and run in every calling context; generators write one character per clause tried, so the comparison with the reference machine (ISO cut barriers, call/N opaque) covers both the answers and exactly which alternatives were retried. A depth sweep puts every stack size 0..72 between the call and the cut. Exhaustive within the bounds.",
  note="Trusted: ref/solve's cut semantics (self-checked against ISO 7.8.4 examples). Cut placements inside nested ;/,/-> are excluded as the property states.",
  design="DESIGN.md §3 C03"),
 "C04": dict(
  technique="bounded-exhaustive enumeration of catch/throw skeletons (all clause bodies up to a length bound over 48 item shapes x 9 contexts, plus the body as query, directive and initialization goal) on the real interpreter; answers, recovery trace and final error compared with an ISO reference machine",
  text="Every skeleton combines generators, cuts, user balls sharing variables (incl. list balls), built-in errors and catch/3 goals that exit deterministically, with choice points, or are re-entered by backtracking; each is run uncaught, caught outside, inside findall, and with a throw after the catch has exited; the reference keeps catch frames as choice points with a trailed active flag. Exhaustive within the bounds.",
  note="Trusted: ref/solve's catch/throw semantics (self-checked against ISO 7.8.9 examples); only the formal part of error(Formal, Context) is compared.",
  design="DESIGN.md §3 C04"),
 "C08": dict(
  technique="bounded-exhaustive enumeration on the real interpreter against a reference standard order: all pairs of a term universe through compare/3 and the six comparison predicates, in-call comparison matrices checked for the order laws, all lists up to a length bound through sort/2, setof/3 and keysort/2 (plus all 2^13 long lists for stability), all pairs of list construction recipes, and the integer/float boundary grids (complete comparison matrices with the order laws, all pairs through the six predicates, sorts of all short lists of extreme values)",
  text="Every ordered pair of the universe is compared through compare/3 and ==, \==, @<, @=<, @>, @>= and checked against the reference order; complete comparison matrices computed inside one call are checked for totality, antisymmetry, transitivity and '=' exactly for identical terms; every list up to the bound is sorted with sort/2, setof/3 and keysort/2 and compared with the reference (ascending, duplicate-free / stable); the same abstract list built through 13 constructor paths must compare '=' and sort alike.",
  note="Trusted: ref/order as the property states the order. Results that hinge on the relative order of two distinct unbound variables are not asserted (inconclusive).",
  design="DESIGN.md §3 C08"),
 "C09": dict(
  technique="explicit-state breadth-first search over database histories: every transition is one update/call executed on the real interpreter (history replayed on a fresh instance) and on a sequential reference database with call-time snapshots; states deduplicated by (model database, last operation) beyond an unmerged depth; a third family over an arity-0 predicate and one term instance asserted several times; abolish/1 under an open retract/1",
  text="From 6+4 initial databases, every history over an alphabet of 38+20 operations (asserta/assertz, retract first/all/by pattern, retractall incl. non-linear and aliased patterns, abolish, calls, and updates issued inside open calls, open clause/2 and open retract/1) is explored to depth 3 (quick) / 4 (thorough); after every transition the operation's answers and the complete listing of the predicates are compared with the reference. Reports states, transitions and depth.",
  note="Trusted: the reference database (ISO 7.5.4 logical update view). One don't-care of the property (whether an open retract/1 succeeds again for a snapshot clause removed meanwhile) is resolved by observing the implementation once per process.",
  design="DESIGN.md §3 C09"),
 "C10": dict(
  technique="bounded-exhaustive enumeration of clause terms added through both paths (Exec, assertz after bindings) on the real interpreter: clause/2 listing and calls compared with the reference executing the source term, and translation validation of the stored bytecode by an independent decompiler (state read through a build-tag-guarded accessor); every clause of bootstrap.pl decompiled",
  text="Every clause of the enumerated families is added to a fresh real interpreter by loading and by assertz (after bindings made in the asserting query) and then observed from later queries: clause/2 must answer a variant of the source with those bindings applied, calls with every argument pattern must behave as the reference machine says the source clause behaves, and the compiled instruction list, decompiled by an inverse of the compiler written for the harness, must denote the source term (same head arguments, body goals, variable sharing). The number of distinct variables is swept 0..40, and the head size 0..40 against top-level disjunctive bodies.",
  note="Trusted: the decompiler (h/decompile.go), the reference machine and the harness reader used for bootstrap.pl. The accessor is injected at build time with -overlay (build tag verif); nothing is committed to /repo for it.",
  design="DESIGN.md §3 C10"),
 "C11": dict(
  technique="bounded-exhaustive enumeration of fact bases with every combination of witness shapes x predicate x template x ^-quantification x instance argument (plus nested and pre-bound queries, and fact sequences whose witness is the same list in up to 16 internal representations) on the real interpreter; answers compared with a literal ISO 8.10 reference (findall as sequence, bagof/setof groups as multiset)",
  text="Every fact base of up to 2 (quick) / 3 (thorough) facts over a witness domain with ground, partially bound, variant and non-variant clause-local variables is queried with findall/bagof/setof under every template, ^-set, goal shape and instance argument; the complete answer set (groups, their contents and order inside a group, the bindings of the free variables, goal variables left unbound) must equal the reference's.",
  note="Trusted: the reference all-solutions algorithm (ISO 8.10.1-3, 7.1.1.4), self-checked against the ISO examples. Group order is deliberately not compared.",
  design="DESIGN.md §3 C11"),
 "C12": dict(
  technique="stateless model checking of the real iterator code under a hand-written controlled scheduler: interpreter.go and solutions.go are rebuilt with their channel operations and go statement mechanically routed through a shim (go build -overlay), and every call history up to a length bound is executed under all interleavings of consumer and search goroutine(s) within a preemption bound (DFS over schedules, replayable choice lists); breadth-first over histories with a (model state, scheduler-visible state, last call) key; a generator family (38 nondeterministic constructs and built-ins x histories that close early, late or never, with an immediate and a deferred side effect after the generator); answers with the empty environment; 20 pairs of the same built-in on different data in two interleaved Solutions",
  text="Every history over {Next, Scan, Err, Close} up to length 6 (quick) / 7 (thorough) on 8 kinds of query, and every merge of two short histories on two Solutions of one interpreter, is run on the real code under every schedule with at most 2/3 preemptions. A blocking call is decided exactly (no enabled thread), as are goroutine leaks after Close/exhaustion and goals running after Close; results are compared with a sequential iterator model.",
  note="Trusted: the syntactic rewriter and the shim's model of Go channels (DESIGN.md Appendix B); schedules are explored up to the stated preemption bound; data races are outside a cooperative scheduler's view (the free-running -race pass of C14 covers the iterator bodies too).",
  design="DESIGN.md §3 C12"),
 "C13": dict(
  technique="bounded-exhaustive enumeration of (looping program, wrapper nesting, call position, cancellation instant) with a deterministic cancellation seam on the real interpreter: the writer given as user_output calls the real cancel() at the k-th byte, k = 0..K plus deep instants (300..40000 iterations into the run), so every poll class of every loop iteration is hit and the machine's stacks are large at the instant of cancellation; oracle = returned error, bounded number of further side effects, follow-up queries (failing, single-answer, enumerated to exhaustion) issued immediately afterwards vs a fresh interpreter; a per-case watchdog turns 'does not return' into a reported violation; cancellation between two answers; cancellation at the k-th poll through a context that counts the engine's looks (answers delivered must equal the uncancelled run's); long single built-in steps against a generous bound",
  text="Every combination of 13 loops, 12 wrappers (nested), 7 call positions (query, second answer, directive, initialization goal, term_expansion body, consulted file via consult/1 and via an ensure_loaded/1 directive) and every cancellation instant up to 12 (quick) / 60 (thorough) bytes of loop output is executed; the pending call must return the context's error, at most 64 bytes may follow cancel(), and the interpreter must then answer follow-up queries (and be able to reload the file) like a fresh one.",
  note="Cancellation instants are enumerated as 'k-th observable side effect', which covers every class 'first poll that sees it' for loops that write; loops that write nothing are cancelled from a timer (instants not controlled). 'Promptly' is decided as a step bound plus a 25 s horizon, never as a latency.",
  design="DESIGN.md §3 C13"),
 "C14": dict(
  technique="stateless model checking of the real atom table / variable counter under a controlled scheduler (sync and sync/atomic of engine/atom.go, engine/variable.go routed through a shim at build time): all pairs/triples of short thread programs under every interleaving within a preemption bound, each recorded call/return history checked for linearizability with porcupine; two interpreters running small queries under every schedule within a deviation bound; exhaustive mutator x observer isolation matrix; results kept by the caller across the whole goal matrix (every registered procedure x argument shapes) re-rendered after another interpreter ran the same goals; separate free-running -race pass incl. a round in which 8 interpreters run the goal matrix at once; fresh atoms first interned through 13 routes in one interpreter and used in another; hammer round of 8 interpreters writing the same never-seen atoms",
  text="The shared process-wide state (atom table, variable counter) is exercised by every combination of short thread programs forced to collide on names that are new in each execution, under all interleavings at lock/unlock/atomic operations up to 3 (quick) / 6 (thorough) preemptions; linearizability against a sequential map is decided per schedule. Isolation is decided exhaustively for 19 mutators x 23 observers in two stream configurations. Data-race freedom proper is left to the race detector on free-running runs of the same kind of bodies, because a cooperative scheduler cannot see unsynchronised accesses.",
  note="Trusted: shim lock model, porcupine v1.3.0, Go race detector. Memory-model effects weaker than sequential consistency are not explored.",
  design="DESIGN.md §3 C14"),
 "C17": dict(
  technique="bounded-exhaustive enumeration of grammars (all rule bodies up to a length bound over 37 body constructs, 9 rule variants (push-back heads of one, two, three terminals, a string, empty, with a head variable), cuts nested in alternations, loaded through Exec and through expand_term/2 + assertz/1) x all input lists up to a length bound on the real interpreter, compared with a direct (non-translating) interpreter of grammar bodies inside the reference machine",
  text="Every grammar of the enumerated family is loaded into a fresh real interpreter and queried with phrase/2 and phrase/3 for every input list up to the bound, for all remainders, and in generation mode; success/failure, the bindings of the non-terminals' arguments, the remainder and the answer order must equal those of a reference that interprets grammar bodies directly over difference lists and never translates a rule.",
  note="Trusted: the direct DCG interpreter in ref/solve.go (sequence, alternation, {}, \\+, !, call//N, if-then-else, push-back) and the reference machine underneath.",
  design="DESIGN.md §3 C17"),
 "C18": dict(
  technique="explicit-state breadth-first search over op/3 histories: every transition is one op/3 call executed on the real interpreter (history replayed on a fresh instance) and on a reference operator table; states = distinct tables; after every transition current_op/3 in all instantiation patterns, reader probes and writer probes are compared with the model; sweeps in which an enumeration by current_op/3 stays open while operators are removed; a second root with several user operators; the atom NUL as a name",
  text="All op/3 histories over the alphabet are explored to depth 2 (quick) / 3 (thorough, plus the full alphabet incl. invalid priorities, specifiers and name lists to depth 2); each reached table state is probed completely once: success/error, the whole table through current_op/3 (a failing call must leave it unchanged), current_op/3 in all 8 instantiation patterns for 6 names x all specifiers/priorities, whether prefix/infix/postfix use parses and how it associates, and whether writeq uses operator notation.",
  note="Trusted: ref/optable.go (ISO 8.14.3 / 6.3.4.3). The initial table is read from a fresh instance. Which error a failing op/3 raises is left to C05.",
  design="DESIGN.md §3 C18"),
 "C19": dict(
  technique="bounded-exhaustive enumeration of input-operation sequences x source texts x stream kinds x eof_action on real streams (files via open/4, host readers incl. one-byte-at-a-time and data-with-EOF readers, and a host source that grows after it reported end of file (feed events interleaved with the operations)), each sequence issued as separate queries and as one conjunction, compared step by step with a reference cursor model; all sequences of output operations to host writer and file; the end-of-stream value as instantiated argument; seekable host readers handed over at an offset; term reads on binary streams",
  text="Every sequence of up to 3 (quick) / 4 (thorough) operations over the input predicates (character, byte, term, peeks incl. failing peeks, end-of-stream tests, position) is run on 18 sources (incl. multi-byte text and texts whose operations straddle byte 4096 of the buffer), 6 stream configurations and binary files; every observed value must be what a single forward cursor yields: peeks leave the cursor, consecutive reads deliver consecutive input, end_of_file then the eof_action, position = bytes consumed. Output sequences must reach the sink completely and in order.",
  note="Trusted: the cursor model in checks/c19.go. Whether read_term/3 consumes the layout character after the end token is resolved by observing the implementation once; the outcome for a text that ends inside a term is not asserted.",
  design="DESIGN.md §3 C19"),
 "C20": dict(
  technique="bounded-exhaustive enumeration of program texts (all item sequences up to a length bound), fault enumeration (every fault kind at every position, texts ending inside a token or comment, on top of every small earlier load), two-load histories and a run-length sweep, loaded through Exec and consult/1 on the real interpreter and compared with a stage-then-commit reference loader; reload of the same file name after a failed load in three naming modes; multifile accumulation with a clause that calls its own predicate",
  text="Every text of up to 4 items out of 15 is loaded; into every text of up to 2 (quick) / 3 (thorough) items each of 6 faults is injected at every position (plus truncation), on top of every small earlier load; every small text is followed by every text of up to 2/3 items; clause runs of every length 1..17 (33) are followed by another predicate and more clauses. After every load: error or not, the output of observing directives and initialization goals, and the ordered answers of every predicate must equal the reference loader's (a failed load changes nothing).",
  note="Trusted: the reference loader in checks/c20.go (stage, fail as a whole, commit with replace / multifile append, then initialization). What a directive sees of its own text's earlier clauses is not asserted.",
  design="DESIGN.md §3 C20"),
 "C15": dict(
  technique="bounded-exhaustive enumeration on the real API: all strings up to a length bound over an alphabet of syntax-significant runes x double_quotes x placeholder positions compared structurally with the term the literal denotes; complete grid of Go values / count pairs; complete grid of answer values x Scan destination types x carriers with an exact-or-error oracle; placeholders distributed over the clauses of a text incl. flag directives; scans into same-named struct types in every order",
  text="Every string of up to 2 (quick) / 3 (thorough) runes over 26 syntax-significant characters (plus strings that spell Prolog syntax) is passed for '?' under each double_quotes flag in 6 positions; the term bound must be exactly the char list / code list / atom of those runes. Integers of every width, floats, nested slices, unsupported kinds and every placeholder/argument count pair are covered. For Scan, 49 answer values around every width boundary x 16 destination types x 3 carriers: the stored value is exactly the answer or an error is returned, and destinations never share storage.",
  note="Trusted: the denotation function in checks/c15.go. Invalid UTF-8 strings have no denoting literal and are excluded.",
  design="DESIGN.md §3 C15"),
 "C16": dict(
  technique="bounded-exhaustive enumeration of call patterns on the real interpreter against relations computed by brute force: every instantiation pattern the modes admit x every combination of bound values (matching and non-matching), answers compared as multisets; infinite / variable-creating modes against the reference machine; chains in which the input list is the answer of one of 12 built-in constructions at every length 0..9 and two calls extend the same list with both answers kept; values outside the domain must not be answered; identity (not only text) of atoms produced for the first time; calls on fresh interpreters, the NUL atom",
  text="For each of the 17 predicates the complete relation over a finite domain (multi-byte characters, lists, integers near the 64-bit limits) is enumerated by brute force and every admissible call pattern is compared with the matching subset of the relation, each tuple exactly once - which also yields the monotonicity clause of the property.",
  note="Trusted: ref/relations (brute-force definitions in terms of runes and positions); member/select answer once per occurrence.",
  design="DESIGN.md §3 C16"),
 "C05": dict(
  technique="bounded-exhaustive enumeration of inputs in isolated worker processes with crash containment: all token strings up to a length bound (and all 1- and 2-byte strings) through Exec and Query; every registered procedure (listed through a build-tag-guarded accessor) x all argument-shape tuples; every evaluable functor of eval's dispatch tables x an operand grid; every procedure x 7 kinds of stream argument (closed, binary, at end, ...) in every position; all short conjunctions of database-changing goals under open calls; a write-ahead record attributes a killed process to the exact input, a watchdog turns a call that does not return into a violation; all short histories of stream-state operations (standard streams closed, current streams switched) x stream-using probes; loading texts from a file system with inclusion and loading cycles",
  text="Every string of up to 3 (quick) / 4 (thorough) tokens over a 29-token alphabet derived from the lexer, with and without a final full stop, is handed to Exec and Query; every registered procedure is called with every tuple of 14/22 argument shapes (first answer plus a retry) on an interpreter with real streams and on prolog.New(nil, nil); every evaluable functor is applied to every pair of 25 operand shapes under is/2, comparisons and catch/3; every procedure of arity 1..4 gets closed/open, text/binary, input/output streams in every argument position; all conjunctions of up to 3/4 of 20 goals that call, retract, assert and abolish a dynamic predicate while calls of it are open are run to exhaustion. The process must survive (fatal runtime errors are caught by re-running the batch in fine mode), the call must return, errors raised by predicates must be error(Formal, _) with an ISO formal error term, and no error may be the residue of a recovered Go panic.",
  note="Inputs beyond the length/shape bounds are not covered; halt/0,1 is excluded; a Go error for an unparsable text is accepted as the API's syntax error report.",
  design="DESIGN.md §3 C05"),
 "C06": dict(
  technique="bounded-exhaustive enumeration of terms (every leaf class x every operator/functor context to depth 2, all terms of depth <= 2 in every operator table reached by op/3 over three names, a token-adjacency family of 16 operator names that can fuse with a neighbouring token x all specifiers x leaves of every token class, one atom per Unicode general category, a number grid over every binade) built without the reader, written by the real writer and read back by the real reader under the same table and flags; structural comparison, floats by bit pattern",
  text="Every term of the enumerated families is constructed through atom_codes/2, =../2 and placeholders (never through the reader), written with each of writeq, write_canonical, write_term quoted / quoted+ignore_ops under each double_quotes flag, and the text followed by ' .' is read with read_term/2 in the same interpreter; the term read must be identical up to variable renaming. Operator tables are reached by op/3 (21 single definitions on two names, and pairs); numbers go there and back through number_codes/number_chars over a grid of every (8th) binade x 64 mantissa patterns x sign and the neighbours of every power of ten.",
  note="Trusted: the term builder (atom_codes/2, =../2, placeholders - checked by C15/C16). '$VAR'(N) terms are excluded as the property states.",
  design="DESIGN.md §3 C06"),
 "C07": dict(
  technique="bounded-exhaustive enumeration of the complete boundary-value grid (all functors x all operand pairs, all depth-2 trees over a reduced grid) on the real evaluator, each case compared with a math/big + IEEE-754 reference model; every power of two with its neighbours; a depth sweep of chains over one shared sub-expression; violations that depend on state left by earlier cases are confirmed by re-running the finding worker's sequence",
  text="Every evaluable functor of the statement is run on the complete cross product of an integer and a float boundary grid (all int/float combinations), all shift counts, all six comparisons, and all depth-2 trees over a reduced grid; each result is compared with an exact reference (math/big integers, IEEE-754 doubles). Exhaustive within the grid: a wrong boundary test, a float detour or a sign slip in any of the per-type helpers shows up as a concrete expression.",
  note="Trusted: the reference arithmetic (math/big, Go float64) and the ISO reading documented in the evidence assumptions; values outside the grid are not covered.",
  design="DESIGN.md §3 C07"),
}

NOT_YET = "not claimed"

def main():
    props = [json.loads(l) for l in open('/verif/properties.jsonl')]
    checks, na = [], []
    for p in props:
        pid = p['id']
        c = CHECKS.get(pid)
        if not c:
            na.append({"property_id": pid, "reason": NOT_YET})
            continue
        checks.append({
            "property_id": pid,
            "quick_cmd": f"./vcheck {pid} quick",
            "thorough_cmd": f"./vcheck {pid} thorough",
            "evidence_file": f"/verif/evidence/{pid}.json",
            "replay_cmd_template": "./vcheck replay {path}",
            "engine": c.get("engine", "vcheck"),
            "level_claimed": {"category": "model_checking", "text": c["text"], "design_ref": c["design"]},
            "level_note": c["note"],
            "technique": c["technique"],
        })
    m = {
        "version": 1,
        "setup_cmd": "./vcheck build",
        "hooks": {
            "guard": "verif",
            "enable": "go build -tags verif -overlay <generated>: /verif/inject/zz_verif_hooks.go is added to package engine (read-only accessors) and, for C12/C14, the files containing synchronisation are replaced by mechanically rewritten copies whose channel/mutex/atomic operations go through /verif/shim/vsync; nothing is committed to /repo",
            "baseline_off_cmd": "cd /repo && GOFLAGS=-mod=mod GOPROXY=off GOSUMDB=off go test -vet=off -count=1 ./...",
            "source_commits": [],
            "add_only": True,
        },
        "engines": [
            {"name": "vcheck", "path": "/verif/cmd/vcheck", "serves_properties": [c["property_id"] for c in checks],
             "kind_free_text": "single Go driver: bounded-exhaustive enumerators, explicit-state BFS over the real transition functions, controlled scheduler (stateless DFS, preemption bounded) over mechanically rewritten synchronisation; reference models in /verif/ref; sharded over 16 worker processes"},
        ],
        "checks": checks,
        "not_applicable": na,
        "notes": "All checks are built by ./vcheck from /repo's current working tree. Genuine defects found are in /verif/known_findings.json (fixed ones as status=fixed with the commit).",
    }
    json.dump(m, open('/verif/MANIFEST.json', 'w'), indent=1)
    print("checks:", len(checks), "not_applicable:", len(na))

main()
