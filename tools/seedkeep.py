#!/usr/bin/env python3
"""seedkeep.py <Cxx> <variant> <detected: yes|no|partial> <check ids> <note>
Archives a verified seeded change from /tmp/seed/out/<Cxx>/<variant> as /verif/seeded/<Cxx>-<variant>/."""
import json, os, shutil, sys
pid, var, det, checks, note = sys.argv[1:6]
import os as _os
src = f"{_os.environ.get('SEED_ROOT', '/tmp/seed/out')}/{pid}/{var}"
dst = f"/verif/seeded/{pid}-{var}"
os.makedirs(dst, exist_ok=True)
for f in os.listdir(src):
    shutil.copy(os.path.join(src, f), dst)
meta = {}
try:
    meta = json.load(open(os.path.join(src, "meta.json")))
except Exception as e:
    meta = {"property": pid, "summary": "(meta.json unreadable: %s)" % e}
meta["breaks_property"] = pid
meta["verified_by_me"] = "tools/seedverify.sh in a scratch worktree of /repo HEAD: patch applies and builds, the repository suite passes with it (all stable_pass tests), the demonstration fails with the patch and passes without it"
meta["checks_run"] = f"tools/seedrun.sh {dst}/patch.diff <check> quick  (git -C /repo apply; ./vcheck <check> quick; git -C /repo checkout -- .)"
meta["detected"] = det
meta["detected_by"] = checks.split(",") if checks else []
meta["detection_note"] = note
json.dump(meta, open(os.path.join(dst, "meta.json"), "w"), indent=1)
print("kept", dst)
