#!/bin/bash
export GOFLAGS=-mod=mod GOPROXY=off GOSUMDB=off GOTOOLCHAIN=local
cd /verif; mkdir -p .build
echo '{"Replace": {"/repo/engine/zz_verif_hooks.go": "/verif/inject/zz_verif_hooks.go"}}' > .build/overlay-vet.json
go build -tags verif -overlay .build/overlay-vet.json -o /dev/null ./cmd/vcheck 2>&1 | head -30
