#!/bin/bash
# Regression over all kept seeded changes: apply each to /repo, run the quick tier of the check(s)
# recorded in its meta.json, revert; prints one line per seed. Exit 1 if a seed is no longer detected.
cd /verif || exit 2
bad=0
for d in seeded/C*; do
  id=$(basename "$d")
  prop=${id%-*}
  checks=$(python3 -c "import json;print(' '.join(json.load(open('$d/meta.json'))['detected_by'][:1]))")
  [ -z "$checks" ] && checks=$prop
  if ! git -C /repo apply --check "$PWD/$d/patch.diff" 2>/dev/null; then echo "$id: PATCH DOES NOT APPLY"; bad=1; continue; fi
  git -C /repo apply "$PWD/$d/patch.diff"
  res=""
  for c in $checks; do
    out=$(timeout 1500 ./vcheck "$c" quick 2>&1); rc=$?
    n=$(echo "$out" | grep -c '^VIOLATION')
    res="$res $c:rc=$rc,violations=$n"
    [ $rc -ne 1 ] && bad=1
  done
  git -C /repo checkout -- . ; git -C /repo clean -fdq
  echo "$id:$res"
done
exit $bad
