#!/bin/bash
# usage: seedproc.sh <Cxx> <variant> [check-id ...]   (SEED_ROOT=/tmp/seed6/out)
# verifies a seeded change (tools/seedverify.sh) and runs the quick tier of the named checks (default: its own)
# against it on /repo, restoring the evidence file afterwards (a run against a seeded change is not evidence).
set -u
ID=$1; VAR=$2; shift 2
ROOT=${SEED_ROOT:-/tmp/seed6/out}
D=$ROOT/$ID/$VAR
[ -f "$D/patch.diff" ] || { echo "no $D/patch.diff"; exit 2; }
/verif/tools/seedverify.sh "$D" 2>&1 | tail -9
for c in ${@:-$ID}; do
  echo "=== $c quick against $ID-$VAR"
  /verif/tools/seedrun.sh "$D/patch.diff" "$c" quick 2>&1 | tail -8
  git -C /verif checkout -- "evidence/$c.json"
done
git -C /repo status --short | head -3
