// Package vsync is the synchronisation shim of the /verif harness. It is compiled into the module
// under test as a virtual package (go build -overlay); the files of the module that contain
// channel operations, go statements, sync or sync/atomic are replaced at build time by mechanically
// rewritten copies whose operations go through this package.
//
// Passthrough mode (no active scheduler): every operation is the real Go operation.
// Controlled mode (inside Run): every operation is a scheduling point of a cooperative scheduler;
// exactly one controlled goroutine runs at a time and the explorer decides which one continues.
package vsync

import (
	"fmt"
	"sync"
	"sync/atomic"
	"time"
)

// ---------------------------------------------------------------------------------------------
// scheduler

type opKind int

const (
	opStart opKind = iota
	opSend
	opRecv
	opClose
	opLock
	opUnlock
	opRLock
	opRUnlock
	opAtomic
	opYield
)

var opNames = [...]string{"start", "send", "recv", "close", "lock", "unlock", "rlock", "runlock", "atomic", "yield"}

type pending struct {
	kind opKind
	ch   chanModel
	mu   *RWMutex
	done bool // completed passively by another thread's transition (unbuffered rendezvous)
}

type thread struct {
	id       int
	wake     chan struct{}
	finished bool
	op       *pending
	nops     int
}

// Point is one scheduling decision of an execution.
type Point struct {
	Enabled        []int // thread ids in canonical order (running thread first if still enabled)
	Chosen         int   // index into Enabled
	RunningEnabled bool
}

// Event is one executed operation (for the determinism guard and for reports).
type Event struct {
	Thread int
	Op     string
	Obj    int
}

// Result describes one complete execution.
type Result struct {
	Points   []Point
	Events   []Event
	Deadlock bool  // no enabled thread while the main thread had not finished
	Blocked  []int // threads that were parked forever at the end (main finished): leaked goroutines
	Panic    interface{}
	Steps    int
	Diverged string // replay of the prefix met a different enabled set size: harness error
	// Final is the state of the other threads when the main thread finished: for each thread
	// "f" (finished) or "p:<op>" (parked), e.g. "1=p:recv"
	Final string
}

// Choices returns the choice made at every point.
func (r *Result) Choices() []int {
	out := make([]int, len(r.Points))
	for i, p := range r.Points {
		out[i] = p.Chosen
	}
	return out
}

type sched struct {
	mu       sync.Mutex
	threads  []*thread
	running  *thread
	prefix   []int
	res      *Result
	drain    bool
	over     chan struct{}
	wg       sync.WaitGroup
	nextObj  int
	maxSteps int
	mainDone bool
}

var active atomic.Pointer[sched]

func cur() *sched { return active.Load() }

// Run executes body as controlled thread 0 and returns when every controlled goroutine has
// finished or is blocked forever. prefix gives the choice at the first len(prefix) points; choice 0
// is taken afterwards. It must not be called concurrently.
func Run(body func(), prefix []int, maxSteps int) *Result {
	s := &sched{prefix: prefix, res: &Result{}, over: make(chan struct{}), maxSteps: maxSteps}
	if !active.CompareAndSwap(nil, s) {
		panic("vsync.Run: already running")
	}
	t0 := &thread{id: 0, wake: make(chan struct{}, 1)}
	s.threads = []*thread{t0}
	s.running = t0
	s.wg.Add(1)
	go func() {
		defer s.wg.Done()
		defer s.exit(t0, true)
		defer func() {
			if r := recover(); r != nil {
				s.mu.Lock()
				if s.res.Panic == nil {
					s.res.Panic = r
				}
				s.mu.Unlock()
			}
		}()
		body()
	}()
	<-s.over
	// let the drained goroutines leave
	done := make(chan struct{})
	go func() { s.wg.Wait(); close(done) }()
	select {
	case <-done:
	case <-time.After(5 * time.Second):
	}
	active.Store(nil)
	return s.res
}

// Go starts f as a new controlled thread (or as a plain goroutine in passthrough mode).
func Go(f func()) {
	s := cur()
	if s == nil || s.drain {
		go f()
		return
	}
	s.mu.Lock()
	t := &thread{id: len(s.threads), wake: make(chan struct{}, 1), op: &pending{kind: opStart}}
	s.threads = append(s.threads, t)
	s.mu.Unlock()
	s.wg.Add(1)
	go func() {
		defer s.wg.Done()
		<-t.wake
		s.mu.Lock()
		if s.drain {
			s.mu.Unlock()
			f()
			return
		}
		s.event(t, opStart, 0)
		t.op = nil
		s.mu.Unlock()
		defer s.exit(t, false)
		defer func() {
			if r := recover(); r != nil {
				s.mu.Lock()
				if s.res.Panic == nil {
					s.res.Panic = fmt.Sprintf("goroutine %d: %v", t.id, r)
				}
				s.mu.Unlock()
			}
		}()
		f()
	}()
}

func (s *sched) isDrain() bool {
	s.mu.Lock()
	defer s.mu.Unlock()
	return s.drain
}

func (s *sched) enabled(t *thread) bool {
	if t.finished || t.op == nil {
		return false
	}
	op := t.op
	if op.done {
		return true
	}
	switch op.kind {
	case opStart, opClose, opUnlock, opRUnlock, opAtomic, opYield:
		return true
	case opSend:
		return op.ch.canSend(s)
	case opRecv:
		return op.ch.canRecv()
	case opLock:
		return !op.mu.mWriter && op.mu.mReaders == 0
	case opRLock:
		return !op.mu.mWriter
	}
	return false
}

// pickLocked chooses the next thread among the enabled ones (s.mu held). from is the thread that
// is giving up control (nil if it has finished).
func (s *sched) pickLocked(from *thread) *thread {
	var en []*thread
	runningEnabled := false
	if from != nil && s.enabled(from) {
		en = append(en, from)
		runningEnabled = true
	}
	for _, t := range s.threads {
		if t != from && s.enabled(t) {
			en = append(en, t)
		}
	}
	if len(en) == 0 {
		return nil
	}
	choice := 0
	i := len(s.res.Points)
	if i < len(s.prefix) {
		choice = s.prefix[i]
		if choice >= len(en) {
			s.res.Diverged = fmt.Sprintf("point %d: choice %d but only %d enabled threads", i, choice, len(en))
			choice = 0
		}
	}
	ids := make([]int, len(en))
	for k, t := range en {
		ids[k] = t.id
	}
	s.res.Points = append(s.res.Points, Point{Enabled: ids, Chosen: choice, RunningEnabled: runningEnabled})
	return en[choice]
}

// finishLocked ends the run: everything still parked is released in drain mode.
func (s *sched) finishLocked() {
	if s.drain {
		return
	}
	s.drain = true
	for _, t := range s.threads {
		if !t.finished {
			select {
			case t.wake <- struct{}{}:
			default:
			}
		}
	}
	close(s.over)
}

// step is called by the running thread before each operation. It returns false in drain mode
// (the caller then performs the drain-mode version of the operation).
func (s *sched) step(op *pending) bool {
	s.mu.Lock()
	if s.drain {
		s.mu.Unlock()
		return false
	}
	t := s.running
	t.op = op
	s.res.Steps++
	if s.maxSteps > 0 && s.res.Steps > s.maxSteps {
		s.res.Deadlock = false
		s.res.Diverged = "step limit exceeded"
		s.finishLocked()
		s.mu.Unlock()
		return false
	}
	next := s.pickLocked(t)
	if next == nil {
		// nobody can move, including this thread
		if !s.mainDone {
			s.res.Deadlock = true
		}
		s.recordBlockedLocked()
		s.finishLocked()
		s.mu.Unlock()
		return false
	}
	if next != t {
		s.running = next
		s.mu.Unlock()
		next.wake <- struct{}{}
		<-t.wake
		s.mu.Lock()
		if s.drain {
			s.mu.Unlock()
			return false
		}
	}
	// this thread is scheduled: the caller performs the operation while holding s.mu
	return true
}

func (s *sched) recordBlockedLocked() {
	for _, t := range s.threads {
		if !t.finished && t != s.threads[0] {
			s.res.Blocked = append(s.res.Blocked, t.id)
		}
	}
	if !s.threads[0].finished && s.mainDone {
		// unreachable: mainDone implies finished
	}
}

func (s *sched) event(t *thread, kind opKind, obj int) {
	s.res.Events = append(s.res.Events, Event{Thread: t.id, Op: opNames[kind], Obj: obj})
	t.nops++
}

// exit is called when a controlled thread ends.
func (s *sched) exit(t *thread, isMain bool) {
	s.mu.Lock()
	defer s.mu.Unlock()
	t.finished = true
	t.op = nil
	if isMain {
		s.mainDone = true
		for _, x := range s.threads[1:] {
			switch {
			case x.finished:
				s.res.Final += fmt.Sprintf("%d=f ", x.id)
			case x.op != nil:
				s.res.Final += fmt.Sprintf("%d=p:%s ", x.id, opNames[x.op.kind])
			default:
				s.res.Final += fmt.Sprintf("%d=r ", x.id)
			}
		}
	}
	if s.drain {
		return
	}
	next := s.pickLocked(nil)
	if next == nil {
		all := true
		for _, x := range s.threads {
			if !x.finished {
				all = false
			}
		}
		if !all {
			if !s.mainDone {
				s.res.Deadlock = true
			}
			s.recordBlockedLocked()
		}
		s.finishLocked()
		return
	}
	s.running = next
	next.wake <- struct{}{}
}

// Yield is an explicit scheduling point (used inside wait loops of harness bodies).
func Yield() {
	s := cur()
	if s == nil {
		return
	}
	op := &pending{kind: opYield}
	if s.step(op) {
		s.event(s.running, opYield, 0)
		s.running.op = nil
		s.mu.Unlock()
	}
}

// ---------------------------------------------------------------------------------------------
// channels

type chanModel interface {
	canSend(s *sched) bool
	canRecv() bool
}

// Chan replaces chan T.
type Chan[T any] struct {
	real chan T
	// model (controlled mode)
	id     int
	cap    int
	buf    []T
	closed bool
	model  bool
	slot   map[*pending]*T // values handed to passive receivers
	okslot map[*pending]bool
}

// MakeChan replaces make(chan T, n).
func MakeChan[T any](n int) *Chan[T] {
	s := cur()
	if s == nil || s.drain {
		return &Chan[T]{real: make(chan T, n)}
	}
	s.mu.Lock()
	s.nextObj++
	id := s.nextObj
	s.mu.Unlock()
	return &Chan[T]{model: true, id: id, cap: n, slot: map[*pending]*T{}, okslot: map[*pending]bool{}}
}

func (c *Chan[T]) receiverParked(s *sched) *thread {
	for _, t := range s.threads {
		if !t.finished && t != s.running && t.op != nil && t.op.kind == opRecv && !t.op.done && t.op.ch == chanModel(c) {
			return t
		}
	}
	return nil
}

func (c *Chan[T]) canSend(s *sched) bool {
	if c.closed || len(c.buf) < c.cap {
		return true
	}
	if c.cap == 0 {
		// rendezvous is initiated by the sender: a receiver must be parked on this channel
		for _, t := range s.threads {
			if !t.finished && t.op != nil && t.op.kind == opRecv && !t.op.done && t.op.ch == chanModel(c) {
				return true
			}
		}
	}
	return false
}

func (c *Chan[T]) canRecv() bool { return len(c.buf) > 0 || c.closed }

// Send replaces c <- v.
func (c *Chan[T]) Send(v T) {
	if !c.model {
		c.real <- v
		return
	}
	s := cur()
	if s == nil {
		return
	}
	op := &pending{kind: opSend, ch: c}
	if !s.step(op) {
		return // drain mode: dropped
	}
	defer s.mu.Unlock()
	t := s.running
	s.event(t, opSend, c.id)
	t.op = nil
	if c.closed {
		panic("send on closed channel")
	}
	if len(c.buf) < c.cap {
		c.buf = append(c.buf, v)
		return
	}
	r := c.receiverParked(s)
	if r == nil {
		panic("vsync: send scheduled without receiver")
	}
	vv := v
	c.slot[r.op] = &vv
	c.okslot[r.op] = true
	r.op.done = true
}

func (c *Chan[T]) recv() (T, bool) {
	var zero T
	if !c.model {
		v, ok := <-c.real
		return v, ok
	}
	s := cur()
	if s == nil {
		return zero, false
	}
	op := &pending{kind: opRecv, ch: c}
	if !s.step(op) {
		return zero, false // drain mode: as if closed
	}
	defer s.mu.Unlock()
	t := s.running
	s.event(t, opRecv, c.id)
	t.op = nil
	if op.done {
		v := c.slot[op]
		ok := c.okslot[op]
		delete(c.slot, op)
		delete(c.okslot, op)
		return *v, ok
	}
	if len(c.buf) > 0 {
		v := c.buf[0]
		c.buf = c.buf[1:]
		return v, true
	}
	if c.closed {
		return zero, false
	}
	panic("vsync: recv scheduled while not enabled")
}

// Recv replaces <-c.
func (c *Chan[T]) Recv() T { v, _ := c.recv(); return v }

// Recv2 replaces v, ok := <-c.
func (c *Chan[T]) Recv2() (T, bool) { return c.recv() }

// Close replaces close(c).
func (c *Chan[T]) Close() {
	if !c.model {
		close(c.real)
		return
	}
	s := cur()
	if s == nil {
		return
	}
	op := &pending{kind: opClose, ch: c}
	if !s.step(op) {
		return
	}
	defer s.mu.Unlock()
	t := s.running
	s.event(t, opClose, c.id)
	t.op = nil
	if c.closed {
		panic("close of closed channel")
	}
	c.closed = true
}

// Len reports the number of buffered elements (model or real).
func (c *Chan[T]) Len() int {
	if !c.model {
		return len(c.real)
	}
	return len(c.buf)
}

// ---------------------------------------------------------------------------------------------
// mutexes and atomics (same identifiers as package sync / sync/atomic so that an import rewrite
// is all the instrumented file needs)

type RWMutex struct {
	real     sync.RWMutex
	mWriter  bool
	mReaders int
	realW    int32 // real write locks taken in passthrough/drain mode (to pair the unlocks)
	realR    int32
}

type Mutex struct{ rw RWMutex }

type Locker = sync.Locker
type WaitGroup = sync.WaitGroup
type Once = sync.Once
type Map = sync.Map
type Pool = sync.Pool
type Cond = sync.Cond

func (m *Mutex) Lock()   { m.rw.Lock() }
func (m *Mutex) Unlock() { m.rw.Unlock() }

const mutexObj = 1000000

// MutexPoints: whether mutex and atomic operations are scheduling points in controlled mode
// (off: they are the real operations - used by scenarios whose subject is the channel protocol).
var MutexPoints = true

func curM() *sched {
	if !MutexPoints {
		return nil
	}
	return cur()
}

func (m *RWMutex) Lock() {
	s := curM()
	if s != nil {
		op := &pending{kind: opLock, mu: m}
		if s.step(op) {
			s.event(s.running, opLock, mutexObj)
			s.running.op = nil
			m.mWriter = true
			s.mu.Unlock()
			return
		}
	}
	m.real.Lock()
	atomic.AddInt32(&m.realW, 1)
}

func (m *RWMutex) Unlock() {
	if atomic.LoadInt32(&m.realW) > 0 {
		atomic.AddInt32(&m.realW, -1)
		m.real.Unlock()
		return
	}
	s := curM()
	if s != nil {
		op := &pending{kind: opUnlock, mu: m}
		if s.step(op) {
			s.event(s.running, opUnlock, mutexObj)
			s.running.op = nil
			m.mWriter = false
			s.mu.Unlock()
			return
		}
	}
	m.mWriter = false // taken in controlled mode, released in drain mode
}

func (m *RWMutex) RLock() {
	s := curM()
	if s != nil {
		op := &pending{kind: opRLock, mu: m}
		if s.step(op) {
			s.event(s.running, opRLock, mutexObj)
			s.running.op = nil
			m.mReaders++
			s.mu.Unlock()
			return
		}
	}
	m.real.RLock()
	atomic.AddInt32(&m.realR, 1)
}

func (m *RWMutex) RUnlock() {
	if atomic.LoadInt32(&m.realR) > 0 {
		atomic.AddInt32(&m.realR, -1)
		m.real.RUnlock()
		return
	}
	s := curM()
	if s != nil {
		op := &pending{kind: opRUnlock, mu: m}
		if s.step(op) {
			s.event(s.running, opRUnlock, mutexObj)
			s.running.op = nil
			m.mReaders--
			s.mu.Unlock()
			return
		}
	}
	if m.mReaders > 0 {
		m.mReaders--
	}
}

// AtomicPoints: whether sync/atomic operations are scheduling points (they are single indivisible
// steps either way; as points they only multiply the interleavings around them).
var AtomicPoints = true

func atomicPoint() {
	if !AtomicPoints {
		return
	}
	s := curM()
	if s == nil {
		return
	}
	op := &pending{kind: opAtomic}
	if s.step(op) {
		s.event(s.running, opAtomic, mutexObj+1)
		s.running.op = nil
		s.mu.Unlock()
	}
}

func AddInt64(addr *int64, delta int64) int64 { atomicPoint(); return atomic.AddInt64(addr, delta) }
func LoadInt64(addr *int64) int64             { atomicPoint(); return atomic.LoadInt64(addr) }
func StoreInt64(addr *int64, v int64)         { atomicPoint(); atomic.StoreInt64(addr, v) }
func AddInt32(addr *int32, delta int32) int32 { atomicPoint(); return atomic.AddInt32(addr, delta) }
func LoadInt32(addr *int32) int32             { atomicPoint(); return atomic.LoadInt32(addr) }
func StoreInt32(addr *int32, v int32)         { atomicPoint(); atomic.StoreInt32(addr, v) }
func AddUint64(addr *uint64, d uint64) uint64 { atomicPoint(); return atomic.AddUint64(addr, d) }
func LoadUint64(addr *uint64) uint64          { atomicPoint(); return atomic.LoadUint64(addr) }
func CompareAndSwapInt64(addr *int64, o, n int64) bool {
	atomicPoint()
	return atomic.CompareAndSwapInt64(addr, o, n)
}
func CompareAndSwapInt32(addr *int32, o, n int32) bool {
	atomicPoint()
	return atomic.CompareAndSwapInt32(addr, o, n)
}

// ---------------------------------------------------------------------------------------------
// explorer: stateless depth-first search with a preemption bound

// Stats of an exploration.
type Stats struct {
	Executions  int
	Points      int
	MaxPoints   int
	Bound       int
	Capped      bool
	Diverged    int
	Transitions int
}

// Explore runs body under every schedule with at most bound preemptions. visit is called for every
// complete execution; returning false stops the exploration. maxExec caps the number of executions
// (0 = none); Stats.Capped reports whether the cap was hit.
func Explore(setup func() func(), bound int, maxExec int, visit func(r *Result) bool) Stats {
	st := Stats{Bound: bound}
	var explore func(prefix []int) bool
	explore = func(prefix []int) bool {
		if maxExec > 0 && st.Executions >= maxExec {
			st.Capped = true
			return false
		}
		body := setup()
		r := Run(body, prefix, 200000)
		st.Executions++
		st.Points += len(r.Points)
		st.Transitions += len(r.Events)
		if len(r.Points) > st.MaxPoints {
			st.MaxPoints = len(r.Points)
		}
		if r.Diverged != "" {
			st.Diverged++
		}
		if !visit(r) {
			return false
		}
		// preemptions used before point i
		pre := 0
		for i := 0; i < len(r.Points); i++ {
			p := r.Points[i]
			if i >= len(prefix) {
				for alt := 1; alt < len(p.Enabled); alt++ {
					cost := pre
					if p.RunningEnabled {
						cost++ // switching away from a runnable thread
					}
					if cost > bound {
						continue
					}
					np := append(append([]int{}, r.Choices()[:i]...), alt)
					if !explore(np) {
						return false
					}
				}
			}
			if p.RunningEnabled && p.Chosen != 0 {
				pre++
			}
		}
		return true
	}
	explore(nil)
	return st
}
