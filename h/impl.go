// Package h is the harness shared by all checks: driving the real interpreter,
// capturing answers structurally, emitting results, aggregating evidence.
package h

import (
	"bytes"
	"context"
	"errors"
	"fmt"
	"io"
	"strings"
	"time"

	"github.com/ichiban/prolog"
	"github.com/ichiban/prolog/engine"

	"verif/ref"
)

// Cap receives the raw (term, env) of a query variable through the public Scanner interface.
type Cap struct {
	T   engine.Term
	Env *engine.Env
}

func (c *Cap) Scan(_ *engine.VM, t engine.Term, env *engine.Env) error {
	c.T, c.Env = t, env
	return nil
}

// Conv converts implementation terms into reference terms, one instance per answer so
// that sharing between the query's variables is preserved.
type Conv struct {
	vars map[engine.Variable]*ref.Var
}

func NewConv() *Conv { return &Conv{vars: map[engine.Variable]*ref.Var{}} }

func (cv *Conv) Term(t engine.Term, env *engine.Env) ref.Term {
	return cv.term(t, env, 0)
}

func (cv *Conv) term(t engine.Term, env *engine.Env, depth int) ref.Term {
	if depth > 100000 {
		return ref.Atom("$too_deep")
	}
	switch t := env.Resolve(t).(type) {
	case engine.Variable:
		v, ok := cv.vars[t]
		if !ok {
			v = ref.NewVar("")
			cv.vars[t] = v
		}
		return v
	case engine.Atom:
		return ref.Atom(t.String())
	case engine.Integer:
		return ref.Int(int64(t))
	case engine.Float:
		return ref.Flt(float64(t))
	case engine.Compound:
		f := t.Functor().String()
		n := t.Arity()
		if f == "." && n == 2 {
			// iterate along the spine to keep recursion shallow for long lists
			var elems []ref.Term
			var cur engine.Term = t
			for {
				c, ok := env.Resolve(cur).(engine.Compound)
				if !ok || c.Arity() != 2 || c.Functor().String() != "." {
					break
				}
				elems = append(elems, cv.term(c.Arg(0), env, depth+1))
				cur = c.Arg(1)
				if len(elems) > 1000000 {
					return ref.Atom("$too_long")
				}
			}
			return ref.PList(cv.term(cur, env, depth+1), elems...)
		}
		args := make([]ref.Term, n)
		for i := 0; i < n; i++ {
			args[i] = cv.term(t.Arg(i), env, depth+1)
		}
		return &ref.Cmp{F: f, Args: args}
	case *engine.Stream:
		return ref.Atom("$stream")
	default:
		return ref.Atom(fmt.Sprintf("$custom(%T)", t))
	}
}

// Outcome is the observable result of one step on either side.
type Outcome struct {
	Answers []string `json:"answers"`         // canonical answers, in order
	Status  string   `json:"status"`          // "exhausted", "truncated", "error", "timeout", "loaderr", "ok"
	Err     string   `json:"err,omitempty"`   // canonical error term or Go error text
	Out     string   `json:"out,omitempty"`   // bytes written to user_output during the step
	Panic   string   `json:"panic,omitempty"` // Go panic that escaped
	Ball    ref.Term `json:"-"`               // thrown term, when Status is error/loaderr and the error is an exception
	GoErr   error    `json:"-"`
}

func (o Outcome) String() string {
	s := o.Status
	if o.Err != "" {
		s += "(" + o.Err + ")"
	}
	s += " [" + strings.Join(o.Answers, " | ") + "]"
	if o.Out != "" {
		s += fmt.Sprintf(" out=%q", o.Out)
	}
	if o.Panic != "" {
		s += " PANIC=" + o.Panic
	}
	return s
}

// Impl wraps one real interpreter.
type Impl struct {
	P       *prolog.Interpreter
	Out     *bytes.Buffer
	Timeout time.Duration
}

func NewImpl() *Impl {
	out := &bytes.Buffer{}
	return &Impl{P: prolog.New(strings.NewReader(""), out), Out: out, Timeout: 10 * time.Second}
}

func NewImplIO(in io.Reader, out io.Writer) *Impl {
	return &Impl{P: prolog.New(in, out), Out: &bytes.Buffer{}, Timeout: 10 * time.Second}
}

// ErrTerm renders a Go error coming out of the interpreter canonically: the formal
// part of error(Formal, Context) (context is implementation defined) or the ball.
func ErrTerm(err error) string {
	if err == nil {
		return ""
	}
	var ex engine.Exception
	if errors.As(err, &ex) {
		t := NewConv().Term(ex.Term(), nil)
		if c, ok := t.(*ref.Cmp); ok && c.F == "error" && len(c.Args) == 2 {
			return "error(" + ref.Canon(c.Args[0], ref.NewNamer()) + ",_)"
		}
		return ref.Canon(t, ref.NewNamer())
	}
	if errors.Is(err, context.DeadlineExceeded) {
		return "$timeout"
	}
	if errors.Is(err, context.Canceled) {
		return "$canceled"
	}
	return "$go:" + err.Error()
}

// ErrBall returns the thrown term of an error (nil if it is not an exception).
func ErrBall(err error) ref.Term {
	var ex engine.Exception
	if errors.As(err, &ex) {
		return NewConv().Term(ex.Term(), nil)
	}
	return nil
}

// Exec loads a text.
func (im *Impl) Exec(text string, args ...interface{}) (o Outcome) {
	before := im.Out.Len()
	defer func() {
		if r := recover(); r != nil {
			o.Panic = fmt.Sprint(r)
			o.Status = "panic"
		}
		o.Out = im.Out.String()[before:]
	}()
	ctx, cancel := context.WithTimeout(context.Background(), im.Timeout)
	defer cancel()
	err := im.P.ExecContext(ctx, text, args...)
	if err != nil {
		o.Status = "loaderr"
		o.Err = ErrTerm(err)
		o.Ball, o.GoErr = ErrBall(err), err
		return
	}
	o.Status = "ok"
	return
}

// Query runs a query to exhaustion (or max answers) and captures the answers of the
// variables named in vars (in that order; nil = all variables in the order the parser
// reports them, sorted by name by the caller if needed).
func (im *Impl) Query(q string, vars []string, max int, args ...interface{}) (o Outcome) {
	o, _ = im.QueryTerms(q, vars, max, args...)
	return o
}

// QueryTerms is Query that also returns the captured answers as reference terms.
func (im *Impl) QueryTerms(q string, vars []string, max int, args ...interface{}) (o Outcome, answers [][]ref.Term) {
	before := im.Out.Len()
	defer func() {
		if r := recover(); r != nil {
			o.Panic = fmt.Sprint(r)
			o.Status = "panic"
		}
		if im.Out.Len() >= before {
			o.Out = im.Out.String()[before:]
		}
	}()
	ctx, cancel := context.WithTimeout(context.Background(), im.Timeout)
	defer cancel()
	sols, err := im.P.QueryContext(ctx, q, args...)
	if err != nil {
		o.Status = "error"
		o.Err = ErrTerm(err)
		o.Ball, o.GoErr = ErrBall(err), err
		return
	}
	defer sols.Close()
	for sols.Next() {
		m := map[string]Cap{}
		if err := sols.Scan(m); err != nil {
			o.Status = "error"
			o.Err = "$scan:" + err.Error()
			return
		}
		cv := NewConv()
		vals := make([]ref.Term, len(vars))
		for i, name := range vars {
			c, ok := m[name]
			if !ok {
				vals[i] = ref.Atom("$novar")
				continue
			}
			vals[i] = ref.NormErr(cv.Term(c.T, c.Env))
		}
		answers = append(answers, vals)
		o.Answers = append(o.Answers, ref.CanonAnswer(vals))
		if max > 0 && len(o.Answers) >= max {
			o.Status = "truncated"
			return
		}
	}
	if err := sols.Err(); err != nil {
		o.Status = "error"
		o.Err = ErrTerm(err)
		o.Ball, o.GoErr = ErrBall(err), err
		return
	}
	o.Status = "exhausted"
	return
}
