package h

import (
	"fmt"

	"github.com/ichiban/prolog/engine"

	"verif/ref"
)

// Decompile rebuilds the clause term denoted by a compiled clause (the inverse of the clause
// compiler): head arguments from the get_* instructions, body goals from put_*/call/cut.
func Decompile(name string, arity int, vc engine.VerifClause) (t ref.Term, err error) {
	defer func() {
		if r := recover(); r != nil {
			err = fmt.Errorf("decompile: %v", r)
		}
	}()
	vars := make([]*ref.Var, vc.NVars)
	for i := range vars {
		vars[i] = ref.NewVar(fmt.Sprintf("V%d", i))
	}
	code := vc.Code
	pc := 0
	cv := NewConv()
	var arg func(prefix string) ref.Term
	arg = func(prefix string) ref.Term {
		in := code[pc]
		pc++
		switch in.Op {
		case prefix + "_var":
			return vars[in.N]
		case prefix + "_const":
			return cv.Term(in.Operand, nil)
		case prefix + "_functor":
			args := make([]ref.Term, in.N)
			for i := range args {
				args[i] = arg(prefix)
			}
			expectOp(code, &pc, "pop")
			return &ref.Cmp{F: in.Name, Args: args}
		case prefix + "_list":
			elems := make([]ref.Term, in.N)
			for i := range elems {
				elems[i] = arg(prefix)
			}
			expectOp(code, &pc, "pop")
			return ref.List(elems...)
		case prefix + "_partial":
			tail := arg(prefix)
			elems := make([]ref.Term, in.N)
			for i := range elems {
				elems[i] = arg(prefix)
			}
			expectOp(code, &pc, "pop")
			return ref.PList(tail, elems...)
		}
		panic(fmt.Sprintf("unexpected instruction %s at %d", in.Op, pc-1))
	}
	hargs := make([]ref.Term, arity)
	for i := range hargs {
		hargs[i] = arg("get")
	}
	var head ref.Term = ref.Atom(name)
	if arity > 0 {
		head = &ref.Cmp{F: name, Args: hargs}
	}
	var goals []ref.Term
	if code[pc].Op == "enter" {
		pc++
		for code[pc].Op != "exit" {
			switch code[pc].Op {
			case "cut":
				pc++
				goals = append(goals, ref.Atom("!"))
			case "call":
				goals = append(goals, ref.Atom(code[pc].Name))
				pc++
			default:
				var args []ref.Term
				for code[pc].Op != "call" {
					args = append(args, arg("put"))
				}
				if code[pc].N != len(args) {
					panic(fmt.Sprintf("call %s/%d after %d arguments", code[pc].Name, code[pc].N, len(args)))
				}
				goals = append(goals, &ref.Cmp{F: code[pc].Name, Args: args})
				pc++
			}
		}
	}
	expectOp(code, &pc, "exit")
	if pc != len(code) {
		panic("instructions after exit")
	}
	if len(goals) == 0 {
		return head, nil
	}
	body := goals[len(goals)-1]
	for i := len(goals) - 2; i >= 0; i-- {
		body = ref.C(",", goals[i], body)
	}
	return ref.C(":-", head, body), nil
}

func expectOp(code []engine.VerifInstr, pc *int, op string) {
	if *pc >= len(code) || code[*pc].Op != op {
		got := "<end>"
		if *pc < len(code) {
			got = code[*pc].Op
		}
		panic(fmt.Sprintf("expected %s at %d, found %s", op, *pc, got))
	}
	*pc++
}
