package h

import (
	"encoding/json"
	"fmt"
	"sort"
	"strings"
	"time"

	"verif/ref"
)

// ProgCase is the unified case of DESIGN.md Appendix D: on a fresh interpreter perform steps;
// each step loads clauses or runs a query; the same case is given to the reference machine.
type ProgCase struct {
	DQ    string     `json:"double_quotes,omitempty"` // "", codes, chars, atom
	Steps []ProgStep `json:"steps"`
	// options of the comparison
	Budget int `json:"budget,omitempty"`
	// Independent: the steps do not change state, so an inconclusive step does not end the case
	Independent bool `json:"independent,omitempty"`
}

type ProgStep struct {
	Kind    string       `json:"kind"` // "consult" | "query"
	Clauses []*ref.JTerm `json:"clauses,omitempty"`
	Goal    *ref.JTerm   `json:"goal,omitempty"`
	Vars    []string     `json:"vars,omitempty"` // variables observed (default: all named variables, sorted)
	Max     int          `json:"max,omitempty"`  // max answers (0 = default 16)
	Text    string       `json:"text,omitempty"` // informational: the text given to the implementation
	// GroupsAsMultiset: compare the answers as a multiset instead of a sequence
	Multiset bool `json:"multiset,omitempty"`
	// NoCompare: the step only prepares state; its outcome is not compared
	NoCompare bool `json:"no_compare,omitempty"`
	// Norm: normalisation applied to the answer terms of both sides before comparison.
	// "callvar": call(V) with V an unbound variable is the same as V (ISO converts a variable
	// body goal to call(V); the property only asks for a variant of the clause that was given).
	Norm string `json:"norm,omitempty"`
}

// Consult builds a consult step from clause terms.
func Consult(clauses ...ref.Term) ProgStep {
	s := ProgStep{Kind: "consult"}
	var sb strings.Builder
	for _, c := range clauses {
		s.Clauses = append(s.Clauses, ref.Enc(c))
		sb.WriteString(ref.ClauseText(c))
	}
	s.Text = sb.String()
	return s
}

// Query builds a query step.
func Query(goal ref.Term, max int) ProgStep {
	return ProgStep{Kind: "query", Goal: ref.Enc(goal), Max: max, Text: ref.Text(goal) + "."}
}

// Directive builds a step that runs goal as a directive of a separately loaded text.
func Directive(goal ref.Term) ProgStep {
	return ProgStep{Kind: "directive", Goal: ref.Enc(goal), Text: ":- " + ref.Text(goal) + "."}
}

// Initialization builds a step that runs goal as an initialization goal of a separately loaded text.
func Initialization(goal ref.Term) ProgStep {
	return ProgStep{Kind: "initialization", Goal: ref.Enc(goal), Text: ":- initialization(" + ref.Text(goal) + ")."}
}

// ExpandAssert builds a step that adds a grammar rule through expand_term/2 and assertz/1.
func ExpandAssert(rule ref.Term) ProgStep {
	return ProgStep{Kind: "expand_assert", Goal: ref.Enc(rule), Text: "expand_term(" + ref.Text(rule) + ", C), assertz(C)."}
}

// StepResult is the compared observation of one step.
type StepResult struct {
	Impl     Outcome  `json:"impl"`
	RefAns   []string `json:"ref_answers"`
	RefState string   `json:"ref_status"` // exhausted | truncated | error | budget | unsupported | ok | loaderr
	RefErr   string   `json:"ref_err,omitempty"`
	RefOut   string   `json:"ref_out,omitempty"`
	Verdict  string   `json:"verdict"` // "agree", "differ", "inconclusive"
	Why      string   `json:"why,omitempty"`
}

func namedVars(t ref.Term) []*ref.Var {
	var out []*ref.Var
	for _, v := range ref.Vars(t, nil) {
		if v.Name != "" && !strings.HasPrefix(v.Name, "_") {
			out = append(out, v)
		}
	}
	sort.Slice(out, func(i, j int) bool { return out[i].Name < out[j].Name })
	return out
}

func balls(b ref.Term) string {
	if c, ok := b.(*ref.Cmp); ok && c.F == "error" && len(c.Args) == 2 {
		return "error(" + ref.Canon(c.Args[0], ref.NewNamer()) + ",_)"
	}
	return ref.Canon(b, ref.NewNamer())
}

// RunProg executes the case on a fresh implementation and on the reference and compares.
// It returns per-step results and the index of the first differing step (-1 if none).
func RunProg(pc *ProgCase) (results []StepResult, firstDiff int, inconclusive bool) {
	im := NewImpl()
	im.Timeout = 10 * time.Second
	results, firstDiff, inconclusive = RunProgOn(im, pc)
	if firstDiff >= 0 && strings.Contains(results[firstDiff].Impl.Err, "$timeout") {
		// The 10 s limit is a resource guard, not an oracle: under load a query may simply be slow. The whole case is
		// run once more with a limit two orders of magnitude above anything observed; only then does "still running"
		// count as an observation.
		im = NewImpl()
		im.Timeout = 5 * time.Minute
		return RunProgOn(im, pc)
	}
	return results, firstDiff, inconclusive
}

func RunProgOn(im *Impl, pc *ProgCase) (results []StepResult, firstDiff int, inconclusive bool) {
	firstDiff = -1
	dq := pc.DQ
	if dq == "" {
		dq = DefaultDQ()
	}
	if pc.DQ != "" {
		if o := im.Exec(":- set_prolog_flag(double_quotes, " + pc.DQ + ").\n"); o.Status != "ok" {
			panic("cannot set double_quotes: " + o.String())
		}
	}
	budget := pc.Budget
	if budget == 0 {
		budget = 3000
	}
	db := ref.NewDB()
	world := ref.NewWorld(db, budget)
	world.RetractSkipsErased = RetractPolicy() == "skip"
	multifile := map[string]bool{} // predicates whose current definition comes from texts that declare them multifile
	for i := range pc.Steps {
		st := &pc.Steps[i]
		var r StepResult
		switch st.Kind {
		case "consult":
			var sb strings.Builder
			refFailed := ""
			staged := db.Clone()
			seenPred := map[string]bool{}
			// multifile/1: the flag belongs to the text as a whole (wherever the directive stands); the clauses of a
			// predicate are appended to the earlier definition when that one and this text both declare it, and
			// replace it otherwise
			textMF := map[string]bool{}
			for _, jc := range st.Clauses {
				c := ref.Dec(jc, map[string]*ref.Var{})
				if d, ok := c.(*ref.Cmp); ok && d.F == ":-" && len(d.Args) == 1 {
					if dd, ok := ref.Deref(d.Args[0]).(*ref.Cmp); ok && dd.F == "multifile" && len(dd.Args) == 1 {
						if pi, ok := ref.Deref(dd.Args[0]).(*ref.Cmp); ok && pi.F == "/" && len(pi.Args) == 2 {
							if n, ok := ref.Deref(pi.Args[0]).(ref.Atom); ok {
								if a, ok := ref.Deref(pi.Args[1]).(ref.Int); ok {
									textMF[ref.Key(string(n), int(a))] = true
									continue
								}
							}
						}
						refFailed = "multifile/1 with an argument this runner does not support"
					}
				}
			}
			for _, jc := range st.Clauses {
				c := ref.Dec(jc, map[string]*ref.Var{})
				sb.WriteString(ref.ClauseText(c))
				ce := ref.ExpandStrings(c, dq)
				if d, ok := ce.(*ref.Cmp); ok && d.F == ":-" && len(d.Args) == 1 {
					if dd, ok := ref.Deref(d.Args[0]).(*ref.Cmp); ok && dd.F == "dynamic" && len(dd.Args) == 1 {
						if pi, ok := ref.Deref(dd.Args[0]).(*ref.Cmp); ok && pi.F == "/" {
							staged.Declare(string(pi.Args[0].(ref.Atom)), int(pi.Args[1].(ref.Int)), true)
							continue
						}
					}
					if dd, ok := ref.Deref(d.Args[0]).(*ref.Cmp); ok && dd.F == "discontiguous" && len(dd.Args) == 1 {
						continue // the reference database does not care where the clauses of a predicate stand
					}
					if dd, ok := ref.Deref(d.Args[0]).(*ref.Cmp); ok && dd.F == "multifile" && len(dd.Args) == 1 {
						continue // collected above
					}
					refFailed = "directive not supported by this runner"
					continue
				}
				if g, ok := ce.(*ref.Cmp); ok && g.F == "-->" && len(g.Args) == 2 {
					func() {
						defer func() {
							if x := recover(); x != nil {
								refFailed = fmt.Sprint(x)
							}
						}()
						hd := ref.Deref(g.Args[0])
						if hc, ok := hd.(*ref.Cmp); ok && hc.F == "," && len(hc.Args) == 2 {
							hd = ref.Deref(hc.Args[0])
						}
						n, a, _ := ref.Indicator(hd)
						k := "-->" + ref.Key(n, a)
						if !seenPred[k] {
							seenPred[k] = true
							if staged.Grammar != nil {
								delete(staged.Grammar, ref.Key(n, a))
							}
						}
						staged.AddGrammar(ce)
					}()
					continue
				}
				func() {
					defer func() {
						if x := recover(); x != nil {
							refFailed = fmt.Sprint(x)
						}
					}()
					head, _ := ref.SplitClause(ce)
					n, a, _ := ref.Indicator(head)
					k := ref.Key(n, a)
					if !seenPred[k] {
						seenPred[k] = true
						// consulting replaces an earlier definition, unless both are multifile
						if p, ok := staged.Preds[k]; ok && !(multifile[k] && textMF[k]) {
							p.Clauses = nil
						}
					}
					staged.AddClause(ce, false)
				}()
			}
			st.Text = sb.String()
			r.Impl = im.Exec(st.Text)
			if refFailed != "" {
				r.RefState = "unsupported"
				r.Verdict = "inconclusive"
				r.Why = refFailed
				inconclusive = true
				results = append(results, r)
				return
			}
			for k := range textMF {
				if !seenPred[k] {
					refFailed = "multifile/1 for a predicate without clauses in the text"
				}
			}
			if refFailed != "" {
				r.RefState, r.Verdict, r.Why = "unsupported", "inconclusive", refFailed
				inconclusive = true
				results = append(results, r)
				return
			}
			for k := range seenPred {
				if len(k) > 3 && k[:3] == "-->" {
					continue
				}
				multifile[k] = textMF[k]
			}
			*db = *staged
			r.RefState = "ok"
			if r.Impl.Status != "ok" {
				r.Verdict, r.Why = "differ", "load failed in the implementation"
			} else {
				r.Verdict = "agree"
			}
		case "expand_assert":
			// a grammar rule added through expand_term/2 + assertz/1
			rule := ref.Dec(st.Goal, map[string]*ref.Var{})
			st.Text = "expand_term(" + ref.Text(rule) + ", Clause), assertz(Clause)."
			r.Impl = im.Query(st.Text, nil, 2)
			r.RefState = "ok"
			r.Verdict = "agree"
			func() {
				defer func() {
					if x := recover(); x != nil {
						r.RefState, r.Verdict, r.Why = "unsupported", "inconclusive", fmt.Sprint(x)
						inconclusive = true
					}
				}()
				db.AddGrammar(ref.ExpandStrings(rule, dq))
			}()
			if inconclusive {
				results = append(results, r)
				return
			}
			if r.Impl.Status != "exhausted" || len(r.Impl.Answers) != 1 {
				r.Verdict, r.Why = "differ", "expand_term/assertz of the grammar rule did not succeed exactly once: "+r.Impl.String()
			}
		case "directive", "initialization":
			vars := map[string]*ref.Var{}
			goal := ref.Dec(st.Goal, vars)
			if st.Kind == "directive" {
				st.Text = ":- " + ref.Text(goal) + ".\n"
			} else {
				st.Text = ":- initialization(" + ref.Text(goal) + ").\n"
			}
			rr := world.Run(ref.ExpandStrings(goal, dq), nil, 1)
			r.RefOut = rr.Out
			if rr.Err != nil {
				r.RefState, r.Verdict, r.Why = "unsupported", "inconclusive", rr.Err.Error()
				inconclusive = true
				results = append(results, r)
				return
			}
			r.Impl = im.Exec(st.Text)
			r.Verdict = "agree"
			switch {
			case rr.Ball != nil:
				r.RefState, r.RefErr = "error", balls(rr.Ball)
				if r.Impl.Status != "loaderr" || r.Impl.Err != r.RefErr {
					r.Verdict, r.Why = "differ", "the error returned by Exec does not carry the ball: reference "+r.RefErr+" implementation "+r.Impl.Status+" "+r.Impl.Err
				}
			case len(rr.Canon) == 0:
				r.RefState = "failed"
				if r.Impl.Status != "loaderr" {
					r.Verdict, r.Why = "differ", "a failing directive did not make Exec return an error"
				}
			default:
				r.RefState = "ok"
				if r.Impl.Status != "ok" {
					r.Verdict, r.Why = "differ", "directive succeeds in the reference; implementation: "+r.Impl.Status+" "+r.Impl.Err
				}
			}
			if r.Verdict == "agree" && r.Impl.Out != r.RefOut {
				r.Verdict, r.Why = "differ", fmt.Sprintf("output differs: reference %q implementation %q", r.RefOut, r.Impl.Out)
			}
		case "query":
			vars := map[string]*ref.Var{}
			goal := ref.Dec(st.Goal, vars)
			st.Text = ref.Text(goal) + "."
			g := ref.ExpandStrings(goal, dq)
			// ExpandStrings rebuilds compounds but keeps variable identity
			obs := namedVars(goal)
			if st.Vars != nil {
				obs = obs[:0]
				for _, n := range st.Vars {
					if v, ok := vars[n]; ok {
						obs = append(obs, v)
					}
				}
			}
			names := make([]string, len(obs))
			for j, v := range obs {
				names[j] = v.Name
			}
			max := st.Max
			if max == 0 {
				max = 16
			}
			rr := world.Run(g, obs, max)
			r.RefAns = rr.Canon
			r.RefOut = rr.Out
			implMax := max
			switch {
			case rr.Err != nil:
				r.RefState = "budget"
				if strings.Contains(rr.Err.Error(), "not supported") {
					r.RefState = "unsupported"
					r.Why = rr.Err.Error()
				}
				implMax = len(rr.Canon)
			case rr.Ball != nil:
				r.RefState = "error"
				r.RefErr = balls(rr.Ball)
			case len(rr.Canon) >= max:
				r.RefState = "truncated"
			default:
				r.RefState = "exhausted"
			}
			if r.RefState == "unsupported" || (r.RefState == "budget" && implMax == 0) {
				r.Verdict = "inconclusive"
				results = append(results, r)
				if pc.Independent {
					continue
				}
				inconclusive = true
				return // later steps would start from an unknown state
			}
			if st.Norm != "" {
				var ians [][]ref.Term
				r.Impl, ians = im.QueryTerms(st.Text, names, implMax)
				r.Impl.Answers = normAnswers(ians, st.Norm)
				r.RefAns = normAnswers(rr.Answers, st.Norm)
			} else {
				r.Impl = im.Query(st.Text, names, implMax)
			}
			r.Verdict, r.Why = compareStep(&r, st, implMax)
			if r.RefState == "budget" {
				// the database state after an aborted reference run is unknown
				results = append(results, r)
				if r.Verdict == "differ" && firstDiff < 0 && !st.NoCompare {
					firstDiff = i
				}
				inconclusive = true
				return
			}
		}
		if st.NoCompare && r.Verdict == "differ" {
			r.Verdict = "agree"
		}
		results = append(results, r)
		if r.Verdict == "differ" && firstDiff < 0 {
			firstDiff = i
			return
		}
	}
	return
}

func compareStep(r *StepResult, st *ProgStep, implMax int) (string, string) {
	im := r.Impl
	if im.Panic != "" {
		return "differ", "Go panic escaped: " + im.Panic
	}
	ia, ra := im.Answers, r.RefAns
	if st.Multiset {
		ia, ra = append([]string{}, ia...), append([]string{}, ra...)
		sort.Strings(ia)
		sort.Strings(ra)
	}
	if r.RefState == "budget" {
		// only a prefix is known
		if len(ia) < len(ra) {
			if im.Status == "timeout" {
				return "inconclusive", "timeout"
			}
			return "differ", fmt.Sprintf("implementation produced %d answers (%s), the reference at least %d", len(ia), im.Status, len(ra))
		}
		for i := range ra {
			if ia[i] != ra[i] {
				return "differ", fmt.Sprintf("answer %d differs", i+1)
			}
		}
		return "agree", ""
	}
	n := len(ia)
	if len(ra) < n {
		n = len(ra)
	}
	for i := 0; i < n; i++ {
		if ia[i] != ra[i] {
			return "differ", fmt.Sprintf("answer %d differs", i+1)
		}
	}
	if len(ia) != len(ra) {
		return "differ", fmt.Sprintf("implementation produced %d answers (%s %s), the reference %d (%s %s)", len(ia), im.Status, im.Err, len(ra), r.RefState, r.RefErr)
	}
	switch r.RefState {
	case "exhausted":
		if im.Status != "exhausted" {
			return "differ", "reference: no more answers; implementation: " + im.Status + " " + im.Err
		}
	case "truncated":
		if im.Status != "truncated" {
			return "differ", "reference has a further answer; implementation: " + im.Status + " " + im.Err
		}
	case "error":
		if im.Status != "error" {
			return "differ", "reference raises " + r.RefErr + "; implementation: " + im.Status
		}
		if im.Err != r.RefErr {
			return "differ", "error term differs: reference " + r.RefErr + " implementation " + im.Err
		}
	}
	if im.Out != r.RefOut {
		return "differ", fmt.Sprintf("output differs: reference %q implementation %q", r.RefOut, im.Out)
	}
	return "agree", ""
}

// ProgReplay is a Replay function for checks whose cases are ProgCases.
func ProgReplay(b []byte) (string, string, bool) {
	var pc ProgCase
	if err := json.Unmarshal(b, &pc); err != nil {
		return "", err.Error(), false
	}
	res, first, _ := RunProg(&pc)
	if first < 0 {
		return "agreement with the reference on every step", "agreement", true
	}
	r := res[first]
	return fmt.Sprintf("step %d: %s %v err=%s out=%q", first, r.RefState, r.RefAns, r.RefErr, r.RefOut),
		fmt.Sprintf("step %d: %s  (%s)", first, r.Impl.String(), r.Why), false
}

// Describe renders a case compactly for samples.
func (pc *ProgCase) Describe() string {
	var sb strings.Builder
	for _, s := range pc.Steps {
		if s.Kind == "consult" {
			sb.WriteString(strings.ReplaceAll(strings.TrimSpace(s.Text), "\n", " "))
			sb.WriteString("  ")
		} else {
			if s.Kind == "query" {
				sb.WriteString("?- ")
			}
			sb.WriteString(strings.TrimSpace(s.Text) + "  ")
		}
	}
	return strings.TrimSpace(sb.String())
}

var retractPolicy string

// RetractPolicy resolves a don't-care of the property by observing the implementation once per
// process: whether retract/1, on backtracking, succeeds again for a clause of its call-time
// snapshot that another goal has removed meanwhile ("succeed", the literal ISO 8.9.3.4 example)
// or skips it ("skip"). Anything else (error, other answers) selects the ISO reading.
func RetractPolicy() string {
	if retractPolicy != "" {
		return retractPolicy
	}
	retractPolicy = "succeed"
	im := NewImpl()
	if o := im.Exec(":- dynamic(i/1).\ni(ant).\ni(bee).\n"); o.Status != "ok" {
		return retractPolicy
	}
	o := im.Query("findall(I, (retract(i(I)), once((retract(i(bee)) ; true))), L).", []string{"L"}, 2)
	if o.Status == "exhausted" && len(o.Answers) == 1 && o.Answers[0] == "['ant']" {
		retractPolicy = "skip"
	}
	return retractPolicy
}

func normAnswers(ans [][]ref.Term, norm string) []string {
	out := make([]string, 0, len(ans))
	for _, a := range ans {
		vals := make([]ref.Term, len(a))
		for i, t := range a {
			vals[i] = normTerm(t, norm)
		}
		out = append(out, ref.CanonAnswer(vals))
	}
	return out
}

func normTerm(t ref.Term, norm string) ref.Term {
	t = ref.Deref(t)
	c, ok := t.(*ref.Cmp)
	if !ok {
		return t
	}
	if norm == "callvar" && c.F == "call" && len(c.Args) == 1 {
		if v, ok := ref.Deref(c.Args[0]).(*ref.Var); ok {
			return v
		}
	}
	args := make([]ref.Term, len(c.Args))
	for i, a := range c.Args {
		args[i] = normTerm(a, norm)
	}
	return &ref.Cmp{F: c.F, Args: args}
}

var defaultDQ string

// DefaultDQ is the implementation's initial double_quotes flag (implementation defined), read once.
func DefaultDQ() string {
	if defaultDQ != "" {
		return defaultDQ
	}
	defaultDQ = "codes"
	im := NewImpl()
	o, ans := im.QueryTerms("current_prolog_flag(double_quotes, X).", []string{"X"}, 1)
	if len(ans) == 1 {
		if a, ok := ans[0][0].(ref.Atom); ok {
			defaultDQ = string(a)
		}
	}
	_ = o
	return defaultDQ
}
