package h

import (
	"bufio"
	"bytes"
	"crypto/sha1"
	"encoding/hex"
	"encoding/json"
	"fmt"
	"io"
	"os"
	"os/exec"
	"path/filepath"
	"runtime"
	"sort"
	"strconv"
	"strings"
	"sync"
	"time"
)

const Root = "/verif"

// Check is one property's decision procedure.
type Check struct {
	ID          string
	Rule        string   // how cases are enumerated and what makes one non-trivial
	Explanation string   // what states/transitions mean for this check
	Assumptions []string // trusted base
	// Work enumerates this shard's part of the case space and reports through w.
	Work func(w *W)
	// Replay re-runs one stored case on the current tree; ok=false means it still violates.
	Replay func(caseJSON []byte) (expected, actual string, ok bool)
	// Workers returns the number of worker processes (0 = number of CPUs, max 16).
	Workers func(tier string) int
	// CrashTolerant: a worker that dies is restarted after the case named in its last WAL record,
	// and the death is reported through OnCrash.
	CrashTolerant bool
	OnCrash       func(walCase json.RawMessage, stderrTail string, hung bool) *Violation
	HangAfter     time.Duration // no WAL progress for this long = hang (CrashTolerant only)
	MinOutcomes   int           // vacuity guard (default 2)
	Sched         bool          // needs the binary built with the rewritten synchronisation
	// Procs: GOMAXPROCS of each worker ("" = 1, or 2 for Sched checks)
	Procs string
	// StderrViolation inspects the stderr of a worker that has ended (e.g. race detector reports).
	StderrViolation func(stderr string) *Violation
	// Hidden checks are helpers invoked by other checks (not listed in the manifest).
	Hidden bool
	// ThoroughDeadline/QuickDeadline: internal deadline after which workers stop and
	// the run is reported exhaustive:false.
	QuickDeadline, ThoroughDeadline time.Duration
}

var registry = map[string]*Check{}

func Register(c *Check) { registry[c.ID] = c }

func Lookup(id string) *Check { return registry[id] }

func IDs() []string {
	var ids []string
	for id := range registry {
		ids = append(ids, id)
	}
	sort.Strings(ids)
	return ids
}

// Violation as transported from worker to driver and stored in replay files.
type Violation struct {
	Property string          `json:"property"`
	Tier     string          `json:"tier"`
	Sig      string          `json:"signature"`
	Case     json.RawMessage `json:"case"`
	Expected string          `json:"expected"`
	Actual   string          `json:"actual"`
	Note     string          `json:"note,omitempty"`
	Size     int             `json:"size"` // smaller = simpler; the smallest per signature is kept
	Hang     bool            `json:"hang,omitempty"`
	// NoConfirm: the case comes from a free-running (timing dependent) pass and is not re-run
	NoConfirm bool `json:"no_confirm,omitempty"`
	// Shard/N: the worker that found it. History: the case alone does not reproduce it on a fresh process, but the
	// worker's whole deterministic sequence of cases up to it does (state left behind by earlier cases)
	Shard   int  `json:"shard"`
	N       int  `json:"workers"`
	History bool `json:"history,omitempty"`
}

type record struct {
	T     string          `json:"t"` // "viol", "stats", "wal", "done"
	Viol  *Violation      `json:"viol,omitempty"`
	Stats *Stats          `json:"stats,omitempty"`
	Idx   int64           `json:"idx,omitempty"`
	Case  json.RawMessage `json:"case,omitempty"`
	Fine  bool            `json:"fine,omitempty"`
}

// Stats are the measured counters of one worker.
type Stats struct {
	Evaluations  int64            `json:"evaluations"`
	Nontrivial   int64            `json:"nontrivial"`
	States       int64            `json:"states"`
	Transitions  int64            `json:"transitions"`
	Traces       int64            `json:"traces"`
	Inconclusive int64            `json:"inconclusive"`
	Outcomes     map[string]int64 `json:"outcomes"`
	Samples      []interface{}    `json:"samples"`
	Expired      bool             `json:"expired"`
	Extra        map[string]int64 `json:"extra"`
	Notes        []string         `json:"notes"`
}

// W is the worker-side handle.
type W struct {
	ID       string
	Tier     string
	Shard, N int
	Seed     int64
	Resume   int64 // skip cases with index < Resume (after a crash)
	deadline time.Time
	st       Stats
	out      *bufio.Writer
	mu       sync.Mutex
	seenNT   map[uint64]struct{}
	nviol    map[string]int
	idx      int64

	// PriorHangs are the cases on which earlier incarnations of this worker hung (the driver
	// restarts a worker after each hang); a check may use them to skip a class of cases that is
	// already known not to return instead of paying the horizon for each of them.
	PriorHangs []json.RawMessage
	// FineFrom..FineTo: case indexes that are announced individually (see WAL)
	FineFrom, FineTo int64
	walCount         int64

	guardMu    sync.Mutex
	guardCase  interface{}
	guardStart time.Time
	guardLimit time.Duration
}

// HangLimit is how long one guarded case may run before the worker reports it as not returning.
// It is a horizon (expected: microseconds to milliseconds), not a latency oracle.
const HangLimit = 60 * time.Second

// Guard announces the case about to run. If it does not finish within HangLimit the worker
// reports a violation ("does not return") for it and exits; the driver restarts after it.
func (w *W) Guard(c interface{}) {
	w.guardMu.Lock()
	w.guardCase, w.guardStart, w.guardLimit = c, time.Now(), HangLimit
	w.guardMu.Unlock()
}

// GuardFor is Guard with an explicit horizon.
func (w *W) GuardFor(c interface{}, d time.Duration) {
	w.guardMu.Lock()
	w.guardCase, w.guardStart, w.guardLimit = c, time.Now(), d
	w.guardMu.Unlock()
}

func (w *W) Unguard() {
	w.guardMu.Lock()
	w.guardCase = nil
	w.guardMu.Unlock()
}

func (w *W) watchdog() {
	lastBeat := time.Now()
	for {
		time.Sleep(500 * time.Millisecond)
		w.guardMu.Lock()
		c, start, limit := w.guardCase, w.guardStart, w.guardLimit
		w.guardMu.Unlock()
		if c != nil && time.Since(start) < limit && time.Since(lastBeat) > 10*time.Second {
			// a guarded case within its own horizon is progress as far as the driver's no-progress limit goes: that
			// limit is for workers that are stuck outside a guard, and must not cut a long case short on a slow machine
			lastBeat = time.Now()
			w.mu.Lock()
			w.out.WriteString("{\"t\":\"beat\"}\n")
			w.out.Flush()
			w.mu.Unlock()
		}
		if c == nil || time.Since(start) < limit {
			continue
		}
		// the main goroutine is stuck inside the implementation: report and leave
		b, _ := json.Marshal(c)
		w.mu.Lock() // never released: nothing else may write any more
		rec := record{T: "viol", Viol: &Violation{Property: w.ID, Tier: w.Tier, Sig: "hang: the call does not return (horizon " + limit.String() + ")", Case: b,
			Expected: "the call returns", Actual: "no return within " + limit.String(), Size: 1, Hang: true}}
		rb, _ := json.Marshal(rec)
		w.out.Write(rb)
		w.out.WriteByte('\n')
		sb, _ := json.Marshal(record{T: "stats", Stats: &w.st})
		w.out.Write(sb)
		w.out.WriteByte('\n')
		hb, _ := json.Marshal(record{T: "hung", Idx: w.idx - 1})
		w.out.Write(hb)
		w.out.WriteByte('\n')
		w.out.Flush()
		os.Exit(3)
	}
}

func (w *W) Thorough() bool { return w.Tier == "thorough" }

// Pick returns q for quick and t for thorough.
func (w *W) Pick(q, t int) int {
	if w.Thorough() {
		return t
	}
	return q
}

// Mine reports whether the case with the next running index belongs to this shard.
// Call it exactly once per generated case, in generation order.
func (w *W) Mine() bool {
	i := w.idx
	w.idx++
	if i < w.Resume {
		return false
	}
	return int(i%int64(w.N)) == w.Shard
}

func (w *W) Index() int64 { return w.idx - 1 }

// Expired reports whether the internal deadline passed (the run then ends with exhaustive:false).
func (w *W) Expired() bool {
	if !w.deadline.IsZero() && time.Now().After(w.deadline) {
		w.st.Expired = true
		return true
	}
	return false
}

// Capped records that a cap cut an enumeration short: the run is reported exhaustive:false.
func (w *W) Capped() { w.st.Expired = true }

func (w *W) Eval(n int)         { w.st.Evaluations += int64(n) }
func (w *W) Transitions(n int)  { w.st.Transitions += int64(n) }
func (w *W) States(n int)       { w.st.States += int64(n) }
func (w *W) Traces(n int)       { w.st.Traces += int64(n) }
func (w *W) Inconclusive(n int) { w.st.Inconclusive += int64(n) }
func (w *W) Extra(k string, n int64) {
	if w.st.Extra == nil {
		w.st.Extra = map[string]int64{}
	}
	w.st.Extra[k] += n
}
func (w *W) Note(s string) {
	if len(w.st.Notes) < 20 {
		w.st.Notes = append(w.st.Notes, s)
	}
}

func hash64(s string) uint64 {
	var h uint64 = 14695981039346656037
	for i := 0; i < len(s); i++ {
		h ^= uint64(s[i])
		h *= 1099511628211
	}
	return h
}

// Nontrivial counts key as a distinct non-trivial case (deduplicated within the worker;
// shards partition the case space, so the sum over workers counts distinct cases).
func (w *W) Nontrivial(key string) {
	if w.seenNT == nil {
		w.seenNT = map[uint64]struct{}{}
	}
	k := hash64(key)
	if _, ok := w.seenNT[k]; ok {
		return
	}
	if len(w.seenNT) < 4_000_000 {
		w.seenNT[k] = struct{}{}
	}
	w.st.Nontrivial++
}

// Outcome records an abstract outcome class (vacuity guard / evidence).
func (w *W) Outcome(k string) {
	if w.st.Outcomes == nil {
		w.st.Outcomes = map[string]int64{}
	}
	if _, ok := w.st.Outcomes[k]; !ok && len(w.st.Outcomes) >= 5000 {
		k = "$other"
	}
	w.st.Outcomes[k]++
}

// Sample keeps a few written-out cases.
func (w *W) Sample(v interface{}) {
	n := len(w.st.Samples)
	if n < 3 || (n < 6 && w.st.Evaluations%997 == 0) {
		w.st.Samples = append(w.st.Samples, v)
	}
}

// WAL announces the case about to run (crash containment). To keep it cheap the record is written
// for every WALBatch-th case only; when a worker dies the driver restarts it at the last announced
// case in fine mode, in which every case of that batch is announced, so the killing input is
// identified exactly.
const WALBatch = 256

func (w *W) WAL(c interface{}) {
	i := w.idx - 1
	fine := i >= w.FineFrom && i < w.FineTo
	w.walCount++
	if !fine && w.walCount%WALBatch != 1 {
		return
	}
	b, _ := json.Marshal(c)
	w.emit(record{T: "wal", Idx: i, Case: b, Fine: fine})
	w.out.Flush()
}

// Violation reports a disagreement. At most a few per signature are transported.
func (w *W) Violation(sig string, c interface{}, expected, actual string, size int) {
	if w.nviol == nil {
		w.nviol = map[string]int{}
	}
	w.nviol[sig]++
	w.Extra("violating_cases", 1)
	if w.nviol[sig] > 3 || len(w.nviol) > 400 {
		return
	}
	b, _ := json.Marshal(c)
	w.emit(record{T: "viol", Viol: &Violation{Property: w.ID, Tier: w.Tier, Sig: sig, Case: b, Expected: expected, Actual: actual, Size: size, Shard: w.Shard, N: w.N}})
}

// ViolationNoConfirm reports a violation found by a free-running pass (not replayed for confirmation).
func (w *W) ViolationNoConfirm(sig string, c interface{}, expected, actual string) {
	b, _ := json.Marshal(c)
	w.Extra("violating_cases", 1)
	w.emit(record{T: "viol", Viol: &Violation{Property: w.ID, Tier: w.Tier, Sig: sig, Case: b, Expected: expected, Actual: actual, Size: 1, NoConfirm: true}})
}

func (w *W) emit(r record) {
	b, err := json.Marshal(r)
	if err != nil {
		panic(err)
	}
	w.mu.Lock()
	w.out.Write(b)
	w.out.WriteByte('\n')
	w.mu.Unlock()
}

func envInt(k string, d int64) int64 {
	if s := os.Getenv(k); s != "" {
		if v, err := strconv.ParseInt(s, 10, 64); err == nil {
			return v
		}
	}
	return d
}

// Main is the entry point of the vcheck binary.
func Main() {
	if len(os.Args) < 2 {
		fmt.Fprintln(os.Stderr, "usage: vcheck <id> quick|thorough | replay <path> | list")
		os.Exit(2)
	}
	switch os.Args[1] {
	case "list":
		for _, id := range IDs() {
			fmt.Println(id)
		}
		return
	case "-worker":
		workerMain(os.Args[2:])
		return
	case "replay":
		os.Exit(replayMain(os.Args[2]))
	}
	id := os.Args[1]
	tier := "quick"
	if len(os.Args) > 2 {
		tier = os.Args[2]
	}
	if t := os.Getenv("VERIF_TIER"); t != "" && len(os.Args) <= 2 {
		tier = t
	}
	c := Lookup(id)
	if c == nil {
		fmt.Fprintf(os.Stderr, "unknown check %q\n", id)
		os.Exit(2)
	}
	os.Exit(drive(c, tier))
}

func workerMain(args []string) {
	// -worker <id> <tier> <shard> <n> <resume> <deadline-seconds>
	id, tier := args[0], args[1]
	shard, _ := strconv.Atoi(args[2])
	n, _ := strconv.Atoi(args[3])
	resume, _ := strconv.ParseInt(args[4], 10, 64)
	dl, _ := strconv.ParseFloat(args[5], 64)
	c := Lookup(id)
	w := &W{ID: id, Tier: tier, Shard: shard, N: n, Seed: envInt("VERIF_SEED", 0), Resume: resume,
		out: bufio.NewWriterSize(os.Stdout, 1<<16)}
	if dl > 0 {
		w.deadline = time.Now().Add(time.Duration(dl * float64(time.Second)))
	}
	if len(args) > 8 {
		w.FineFrom, _ = strconv.ParseInt(args[7], 10, 64)
		w.FineTo, _ = strconv.ParseInt(args[8], 10, 64)
	}
	if len(args) > 6 && args[6] != "" {
		if b, err := os.ReadFile(args[6]); err == nil {
			json.Unmarshal(b, &w.PriorHangs)
		}
	}
	go w.watchdog()
	c.Work(w)
	w.Unguard()
	w.emit(record{T: "stats", Stats: &w.st})
	w.emit(record{T: "done"})
	w.out.Flush()
}

type workerResult struct {
	stats  []*Stats
	viols  []*Violation
	failed string
}

func runWorker(c *Check, tier string, shard, n int, deadline time.Duration, res *workerResult, mu *sync.Mutex) {
	resume := int64(0)
	restarts := 0
	var hangs []json.RawMessage
	startAll := time.Now()
	fineFrom, fineTo := int64(-1), int64(-1)
	for {
		hangFile := ""
		if len(hangs) > 0 {
			if f, err := os.CreateTemp("", "vcheck-hangs-*.json"); err == nil {
				b, _ := json.Marshal(hangs)
				f.Write(b)
				f.Close()
				hangFile = f.Name()
				defer os.Remove(hangFile)
			}
		}
		remaining := deadline
		if deadline > 0 {
			remaining = deadline - time.Since(startAll)
			if remaining < time.Second {
				remaining = time.Second
			}
		}
		cmd := exec.Command(selfPath(), "-worker", c.ID, tier, strconv.Itoa(shard), strconv.Itoa(n),
			strconv.FormatInt(resume, 10), strconv.FormatFloat(remaining.Seconds(), 'f', 1, 64), hangFile,
			strconv.FormatInt(fineFrom, 10), strconv.FormatInt(fineTo, 10))
		cmd.Env = append(os.Environ(), "GOMAXPROCS="+workerProcs(c), "GOTRACEBACK=single", "GORACE=halt_on_error=0 exitcode=0")
		if c.CrashTolerant {
			d, _ := os.MkdirTemp("", "vcheck-"+c.ID+"-")
			cmd.Dir = d
			defer os.RemoveAll(d)
		}
		stdout, _ := cmd.StdoutPipe()
		var stderr tailBuf
		cmd.Stderr = &stderr
		if err := cmd.Start(); err != nil {
			mu.Lock()
			res.failed = "start: " + err.Error()
			mu.Unlock()
			return
		}
		var lastWAL *record
		hungAt := int64(-1)
		lastProgress := time.Now()
		var pmu sync.Mutex
		done := false
		hung := false
		stopWatch := make(chan struct{})
		if c.CrashTolerant && c.HangAfter > 0 {
			go func() {
				t := time.NewTicker(500 * time.Millisecond)
				defer t.Stop()
				for {
					select {
					case <-stopWatch:
						return
					case <-t.C:
						pmu.Lock()
						idle := time.Since(lastProgress)
						pmu.Unlock()
						if idle > c.HangAfter {
							pmu.Lock()
							hung = true
							pmu.Unlock()
							cmd.Process.Kill()
							return
						}
					}
				}
			}()
		}
		rd := bufio.NewReaderSize(stdout, 1<<20)
		for {
			line, err := rd.ReadBytes('\n')
			if len(line) > 0 {
				var r record
				if json.Unmarshal(line, &r) == nil {
					pmu.Lock()
					lastProgress = time.Now()
					pmu.Unlock()
					switch r.T {
					case "viol":
						mu.Lock()
						res.viols = append(res.viols, r.Viol)
						mu.Unlock()
						if r.Viol.Hang {
							hangs = append(hangs, r.Viol.Case)
						}
					case "stats":
						mu.Lock()
						res.stats = append(res.stats, r.Stats)
						mu.Unlock()
					case "wal":
						rr := r
						lastWAL = &rr
					case "hung":
						hungAt = r.Idx
					case "done":
						done = true
					}
				}
			}
			if err != nil {
				break
			}
		}
		werr := cmd.Wait()
		close(stopWatch)
		if c.StderrViolation != nil {
			if v := c.StderrViolation(stderr.String()); v != nil {
				v.Property, v.Tier = c.ID, tier
				mu.Lock()
				res.viols = append(res.viols, v)
				mu.Unlock()
				if done {
					return
				}
			}
		}
		if done && werr == nil {
			return
		}
		if hungAt >= 0 && restarts < 200 {
			// the worker reported a case that does not return and left; continue after it
			mu.Lock()
			res.stats = append(res.stats, &Stats{Extra: map[string]int64{"worker_restarts_after_hang": 1}})
			mu.Unlock()
			resume = hungAt + 1
			restarts++
			continue
		}
		if !c.CrashTolerant || lastWAL == nil || restarts > 2000 {
			mu.Lock()
			res.failed = fmt.Sprintf("worker %d died: %v\n%s", shard, werr, stderr.String())
			mu.Unlock()
			return
		}
		pmu.Lock()
		wasHung := hung
		pmu.Unlock()
		if !lastWAL.Fine {
			// the worker died somewhere in the batch that starts at the last announced case: run that
			// batch again, announcing every case
			fineFrom, fineTo = lastWAL.Idx, lastWAL.Idx+WALBatch*int64(n)+1
			resume = lastWAL.Idx
			restarts++
			mu.Lock()
			res.stats = append(res.stats, &Stats{Extra: map[string]int64{"batches_rerun_in_fine_mode": 1}})
			mu.Unlock()
			continue
		}
		if v := c.OnCrash(lastWAL.Case, stderr.String(), wasHung); v != nil {
			v.Property, v.Tier = c.ID, tier
			mu.Lock()
			res.viols = append(res.viols, v)
			mu.Unlock()
		}
		// the stats of the dead worker are lost; count what we know
		mu.Lock()
		res.stats = append(res.stats, &Stats{Extra: map[string]int64{"worker_restarts": 1}})
		mu.Unlock()
		resume = lastWAL.Idx + 1
		restarts++
	}
}

func workerProcs(c *Check) string {
	if c.Procs != "" {
		return c.Procs
	}
	if c.Sched {
		return "2"
	}
	return "1"
}

type tailBuf struct {
	mu  sync.Mutex
	buf []byte
}

func (t *tailBuf) Write(p []byte) (int, error) {
	t.mu.Lock()
	defer t.mu.Unlock()
	t.buf = append(t.buf, p...)
	if len(t.buf) > 8192 {
		// keep head (the fatal error line) and tail
		head := append([]byte{}, t.buf[:2048]...)
		tail := t.buf[len(t.buf)-4096:]
		t.buf = append(append(head, []byte("\n...\n")...), tail...)
	}
	return len(p), nil
}

func (t *tailBuf) String() string {
	t.mu.Lock()
	defer t.mu.Unlock()
	return string(t.buf)
}

// KnownFindings is the committed list of recorded genuine defects.
type KnownFindings struct {
	Findings []Finding `json:"findings"`
}

type Finding struct {
	Property  string          `json:"property"`
	Status    string          `json:"status"` // "open" or "fixed"
	Signature string          `json:"signature"`
	What      string          `json:"what"`
	Commit    string          `json:"commit,omitempty"`
	Case      json.RawMessage `json:"minimal_case,omitempty"`
}

func loadFindings() KnownFindings {
	var k KnownFindings
	b, err := os.ReadFile(filepath.Join(Root, "known_findings.json"))
	if err == nil {
		if err := json.Unmarshal(b, &k); err != nil {
			fmt.Fprintln(os.Stderr, "known_findings.json: ", err)
			os.Exit(2)
		}
	}
	return k
}

func drive(c *Check, tier string) int {
	start := time.Now()
	n := runtime.NumCPU()
	if n > 16 {
		n = 16
	}
	if c.Workers != nil {
		if k := c.Workers(tier); k > 0 {
			n = k
		}
	}
	if k := envInt("VERIF_WORKERS", 0); k > 0 {
		n = int(k)
	}
	deadline := c.QuickDeadline
	if tier == "thorough" {
		deadline = c.ThoroughDeadline
	}
	if d := envInt("VERIF_DEADLINE_S", 0); d > 0 {
		deadline = time.Duration(d) * time.Second
	}
	var res workerResult
	var mu sync.Mutex
	var wg sync.WaitGroup
	for i := 0; i < n; i++ {
		wg.Add(1)
		go func(i int) {
			defer wg.Done()
			runWorker(c, tier, i, n, deadline, &res, &mu)
		}(i)
	}
	wg.Wait()
	if res.failed != "" {
		fmt.Fprintf(os.Stderr, "HARNESS-ERROR property=%s %s\n", c.ID, res.failed)
		return 2
	}
	// merge stats
	tot := Stats{Outcomes: map[string]int64{}, Extra: map[string]int64{}}
	for _, s := range res.stats {
		tot.Evaluations += s.Evaluations
		tot.Nontrivial += s.Nontrivial
		tot.States += s.States
		tot.Transitions += s.Transitions
		tot.Traces += s.Traces
		tot.Inconclusive += s.Inconclusive
		tot.Expired = tot.Expired || s.Expired
		for k, v := range s.Outcomes {
			tot.Outcomes[k] += v
		}
		for k, v := range s.Extra {
			tot.Extra[k] += v
		}
		if len(tot.Samples) < 8 {
			for _, x := range s.Samples {
				if len(tot.Samples) < 8 {
					tot.Samples = append(tot.Samples, x)
				}
			}
		}
		tot.Notes = append(tot.Notes, s.Notes...)
	}
	// smallest violation per signature
	bySig := map[string]*Violation{}
	for _, v := range res.viols {
		old, ok := bySig[v.Sig]
		if !ok || v.Size < old.Size || (v.Size == old.Size && string(v.Case) < string(old.Case)) {
			bySig[v.Sig] = v
		}
	}
	sigs := make([]string, 0, len(bySig))
	for s := range bySig {
		sigs = append(sigs, s)
	}
	sort.Strings(sigs)
	known := loadFindings()
	exit := 0
	nviol := 0
	nknown := 0
	unconfirmed := 0
	var vioSamples []interface{}
	for _, s := range sigs {
		v := bySig[s]
		// confirm by replay (fresh state, no explorer) unless the check has no replayer
		if c.Replay != nil && !c.CrashTolerant && !v.NoConfirm {
			confirmed := 0
			tries := 3
			if v.Hang {
				tries = 1
			}
			for k := 0; k < tries; k++ {
				if !replayInSubprocess(v) {
					confirmed++
				}
			}
			if v.Hang && confirmed == 1 {
				confirmed = 3
			}
			if confirmed < 3 && !v.Hang && confirmByHistory(c, v) {
				// the case alone does not show it, the worker's deterministic sequence of cases does (twice): the
				// failure depends on state that earlier cases left behind in the process
				v.History = true
				v.Note += " [reproduced by re-running the finding worker's sequence of cases, not by the case alone: it depends on state left behind by earlier cases]"
				confirmed = 3
			}
			if confirmed < 3 {
				// not believed: a violation must reproduce identically on a fresh process
				fmt.Fprintf(os.Stderr, "UNCONFIRMED property=%s violation %q reproduced %d/3 times in replay and is not reported; case=%s\n", c.ID, s, confirmed, trunc(string(v.Case), 400))
				unconfirmed++
				continue
			}
		}
		matched := false
		for _, f := range known.Findings {
			if f.Property == c.ID && f.Status == "open" && f.Signature == s {
				matched = true
				fmt.Printf("KNOWN-FINDING: property=%s %s -- %s\n", c.ID, s, f.What)
				nknown++
			}
		}
		if matched {
			continue
		}
		path := writeReplay(v)
		fmt.Printf("VIOLATION property=%s replay=%s\n", c.ID, path)
		fmt.Printf("  signature: %s\n  case: %s\n  expected: %s\n  actual:   %s\n", s, trunc(string(v.Case), 600), trunc(v.Expected, 600), trunc(v.Actual, 600))
		if len(vioSamples) < 5 {
			vioSamples = append(vioSamples, map[string]interface{}{"signature": s, "case": v.Case, "expected": v.Expected, "actual": v.Actual})
		}
		nviol++
		exit = 1
	}
	min := c.MinOutcomes
	if min == 0 {
		min = 2
	}
	if len(tot.Outcomes) < min && exit == 0 && !tot.Expired {
		fmt.Fprintf(os.Stderr, "HARNESS-ERROR property=%s vacuous exploration: %d distinct outcomes\n", c.ID, len(tot.Outcomes))
		return 2
	}
	if unconfirmed > 0 {
		tot.Extra["unconfirmed_violations_dropped"] = int64(unconfirmed)
	}
	writeEvidence(c, tier, &tot, nviol, nknown, vioSamples, time.Since(start), n)
	fmt.Printf("%s %s: evaluations=%d distinct_nontrivial=%d states=%d transitions=%d outcomes=%d violations=%d known=%d exhaustive=%v wall=%.1fs\n",
		c.ID, tier, tot.Evaluations, tot.Nontrivial, tot.States, tot.Transitions, len(tot.Outcomes), nviol, nknown, !tot.Expired, time.Since(start).Seconds())
	return exit
}

// replayInSubprocess re-runs one case in a fresh process (a case may hang or crash the process).
// It returns true iff the property holds on the case.
func replayInSubprocess(v *Violation) bool {
	f, err := os.CreateTemp("", "vcheck-replay-*.json")
	if err != nil {
		return false
	}
	defer os.Remove(f.Name())
	b, _ := json.Marshal(v)
	f.Write(b)
	f.Close()
	cmd := exec.Command(selfPath(), "replay", f.Name())
	cmd.Env = append(os.Environ(), "GOMAXPROCS=2")
	done := make(chan error, 1)
	if err := cmd.Start(); err != nil {
		return false
	}
	go func() { done <- cmd.Wait() }()
	limit := 2 * HangLimit
	select {
	case err := <-done:
		return err == nil
	case <-time.After(limit):
		cmd.Process.Kill()
		<-done
		return false // does not return: still violating
	}
}

// confirmByHistory re-runs the worker that reported v (same check, tier, shard and worker count: the same
// deterministic sequence of cases) twice on fresh processes and reports whether both runs report the same
// violation (signature and case) again.
func confirmByHistory(c *Check, v *Violation) bool {
	if v.N == 0 {
		return false
	}
	for k := 0; k < 2; k++ {
		if !historyShows(c, v) {
			return false
		}
	}
	return true
}

func historyShows(c *Check, v *Violation) bool {
	deadline := c.QuickDeadline
	if v.Tier == "thorough" {
		deadline = c.ThoroughDeadline
	}
	if deadline == 0 {
		deadline = 10 * time.Minute
	}
	cmd := exec.Command(selfPath(), "-worker", c.ID, v.Tier, strconv.Itoa(v.Shard), strconv.Itoa(v.N), "0",
		strconv.FormatFloat(deadline.Seconds(), 'f', 1, 64), "", "-1", "-1")
	cmd.Env = append(os.Environ(), "GOMAXPROCS="+workerProcs(c), "GOTRACEBACK=single")
	stdout, err := cmd.StdoutPipe()
	if err != nil || cmd.Start() != nil {
		return false
	}
	found := false
	sc := bufio.NewScanner(stdout)
	sc.Buffer(make([]byte, 1<<20), 64<<20)
	for sc.Scan() {
		var r record
		if json.Unmarshal(sc.Bytes(), &r) == nil && r.T == "viol" && r.Viol != nil && r.Viol.Sig == v.Sig && bytes.Equal(r.Viol.Case, v.Case) {
			found = true
		}
	}
	done := make(chan error, 1)
	go func() { done <- cmd.Wait() }()
	select {
	case <-done:
	case <-time.After(deadline + time.Minute):
		cmd.Process.Kill()
		<-done
	}
	return found
}

func selfPath() string {
	if p, err := os.Executable(); err == nil {
		return p
	}
	if p, err := filepath.Abs(os.Args[0]); err == nil {
		return p
	}
	return os.Args[0]
}

func trunc(s string, n int) string {
	if len(s) > n {
		return s[:n] + "…"
	}
	return s
}

func writeReplay(v *Violation) string {
	dir := filepath.Join(Root, "replays", v.Property)
	os.MkdirAll(dir, 0o755)
	h := sha1.Sum([]byte(v.Sig + string(v.Case)))
	path := filepath.Join(dir, hex.EncodeToString(h[:6])+".json")
	b, _ := json.MarshalIndent(v, "", " ")
	os.WriteFile(path, b, 0o644)
	return path
}

func replayMain(path string) int {
	b, err := os.ReadFile(path)
	if err != nil {
		fmt.Fprintln(os.Stderr, err)
		return 2
	}
	var v Violation
	if err := json.Unmarshal(b, &v); err != nil {
		fmt.Fprintln(os.Stderr, err)
		return 2
	}
	c := Lookup(v.Property)
	if c == nil || c.Replay == nil {
		fmt.Fprintln(os.Stderr, "no replayer for", v.Property)
		return 2
	}
	if v.History {
		fmt.Printf("property=%s\ncase=%s\n(history replay: worker %d of %d, tier %s)\n", v.Property, v.Case, v.Shard, v.N, v.Tier)
		if historyShows(c, &v) {
			fmt.Printf("VIOLATION property=%s replay=%s\n", v.Property, path)
			return 1
		}
		fmt.Println("REPLAY: property holds on this history")
		return 0
	}
	exp, act, ok := c.Replay(v.Case)
	fmt.Printf("property=%s\ncase=%s\nexpected: %s\nactual:   %s\n", v.Property, v.Case, exp, act)
	if ok {
		fmt.Println("REPLAY: property holds on this case")
		return 0
	}
	fmt.Printf("VIOLATION property=%s replay=%s\n", v.Property, path)
	return 1
}

func writeEvidence(c *Check, tier string, s *Stats, nviol, nknown int, vioSamples []interface{}, wall time.Duration, workers int) {
	type kv struct {
		K string
		V int64
	}
	var outs []kv
	for k, v := range s.Outcomes {
		outs = append(outs, kv{k, v})
	}
	sort.Slice(outs, func(i, j int) bool { return outs[i].V > outs[j].V || (outs[i].V == outs[j].V && outs[i].K < outs[j].K) })
	top := map[string]int64{}
	for i, o := range outs {
		if i >= 40 {
			break
		}
		top[o.K] = o.V
	}
	samples := s.Samples
	if len(samples) == 0 {
		samples = []interface{}{"(no sample recorded)"}
	}
	cov := map[string]interface{}{
		"evaluations":                   s.Evaluations,
		"distinct_nontrivial":           s.Nontrivial,
		"rule":                          c.Rule,
		"samples":                       samples,
		"explanation":                   c.Explanation,
		"exhaustive":                    !s.Expired,
		"distinct_outcomes":             len(s.Outcomes),
		"outcome_histogram_top":         top,
		"inconclusive":                  s.Inconclusive,
		"workers":                       workers,
		"known_findings_reported":       nknown,
	}
	if s.States > 0 && s.Transitions > 0 {
		cov["states"] = s.States
		cov["transitions"] = s.Transitions
		cov["traces_validated_against_impl"] = s.Traces
	}
	for k, v := range s.Extra {
		cov["x_"+k] = v
	}
	if len(s.Notes) > 0 {
		cov["notes"] = s.Notes
	}
	if len(vioSamples) > 0 {
		cov["violation_samples"] = vioSamples
	}
	ev := map[string]interface{}{
		"property_id": c.ID,
		"tier":        tier,
		"seed":        envInt("VERIF_SEED", 0),
		"level":       "model_checking",
		"coverage":    cov,
		"assumptions": append([]string{}, c.Assumptions...),
		"wall_s":      wall.Seconds(),
		"violations":  nviol,
	}
	b, _ := json.MarshalIndent(ev, "", " ")
	os.MkdirAll(filepath.Join(Root, "evidence"), 0o755)
	tmp := filepath.Join(Root, "evidence", c.ID+".json.tmp")
	os.WriteFile(tmp, b, 0o644)
	os.Rename(tmp, filepath.Join(Root, "evidence", c.ID+".json"))
}

var _ = io.EOF
var _ = strings.TrimSpace
